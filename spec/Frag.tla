-------------------------------- MODULE Frag --------------------------------
(***************************************************************************)
(* Reference model of muxide::fragmented::FragmentedMuxer                   *)
(* (src/fragmented.rs): the pending queue, the last accepted decode time,   *)
(* the fragment sequence counter, the history of emitted segments and the   *)
(* init-segment cache.  One action per public method.  Properties C10, C11  *)
(* (and C02/C16/C19 on the emitted byte streams).                           *)
(*                                                                          *)
(* Timestamps are in units of U ticks (U = 1 normally; boundary instances   *)
(* use the numeric embedding of DESIGN.md 2.4).                             *)
(***************************************************************************)
EXTENDS Bytes, SequencesExt, TLC

VARIABLES
    fcfg,      \* configuration of the instance
    pending,   \* queued samples [pts, dts, data, sync]
    lastDts,   \* decode time of the last accepted write, or None
    seqno,     \* sequence number the next emitted segment must carry
    emitted,   \* abstraction of the emitted segments: [first, last (dts), n, base, dursum]
    accepted,  \* number of accepted writes
    flushedN,  \* number of samples handed out in segments
    cadence,   \* None (fewer than 2 samples), the common dts difference, or -2 (irregular)
    initSeen   \* TRUE once an init segment has been requested

fvars == << fcfg, pending, lastDts, seqno, emitted, accepted, flushedN, cadence, initSeen >>

None == -1
FSig(p, q, site, cls) == << p, q, site, cls >>

FInitState(c) ==
    /\ fcfg = c /\ pending = << >> /\ lastDts = None /\ seqno = 1 /\ emitted = << >>
    /\ accepted = 0 /\ flushedN = 0 /\ cadence = None /\ initSeen = FALSE

(* ---- contract of write_video ---- *)
WriteMustSucceed(dts) == lastDts = None \/ dts >= lastDts

NewCadence(dts) ==
    IF lastDts = None THEN None
    ELSE IF cadence = None THEN dts - lastDts
    ELSE IF cadence = dts - lastDts THEN cadence ELSE -2

DoFWrite(pts, dts, data, sync, ok) ==
    /\ fcfg' = fcfg /\ UNCHANGED << seqno, emitted, flushedN, initSeen >>
    /\ IF ok THEN /\ pending' = Append(pending, [pts |-> pts, dts |-> dts, data |-> data, sync |-> sync])
                  /\ lastDts' = dts /\ accepted' = accepted + 1 /\ cadence' = NewCadence(dts)
       ELSE UNCHANGED << pending, lastDts, accepted, cadence >>

(* ---- flush ---- *)
SegAbstract(base, dursum) ==
    [first |-> pending[1].dts, last |-> pending[Len(pending)].dts, n |-> Len(pending), base |-> base, dursum |-> dursum]

DoFFlush(some, base, dursum) ==
    /\ fcfg' = fcfg /\ UNCHANGED << lastDts, accepted, cadence, initSeen >>
    /\ IF some /\ pending # << >> THEN
            /\ emitted' = Append(emitted, SegAbstract(base, dursum))
            /\ flushedN' = flushedN + Len(pending)
            /\ pending' = << >> /\ seqno' = seqno + 1
       ELSE IF some THEN   \* a segment out of nothing: state unchanged, reported by the monitor
            UNCHANGED << emitted, flushedN, pending, seqno >>
       ELSE UNCHANGED << emitted, flushedN, pending, seqno >>

DoFQuery == UNCHANGED fvars
DoFInit == /\ initSeen' = TRUE /\ UNCHANGED << fcfg, pending, lastDts, seqno, emitted, accepted, flushedN, cadence >>

(* ---- readiness, as documented: at least two samples and a span of at least the target ---- *)
SpanTicks == IF Len(pending) < 2 THEN 0 ELSE pending[Len(pending)].dts - pending[1].dts
(* ms = floor(span * U * 1000 / timescale); evaluated only for ordinary instances (U = 1) *)
SpanMs == IF fcfg.timescale = 0 THEN 0 ELSE (SpanTicks * 1000) \div fcfg.timescale
Ready == Len(pending) >= 2 /\ SpanMs >= fcfg.fragms

-----------------------------------------------------------------------------
(* Declarative properties of one emitted segment S (projection by the reader) *)
(* against the queue it must describe.                                        *)
ExpDurF(q, i) == IF i < Len(q) THEN q[i+1].dts - q[i].dts
                 ELSE IF Len(q) >= 2 THEN q[i].dts - q[i-1].dts ELSE None

C10Seg(S, q) ==
    LET n == IF Len(q) < Len(S.s) THEN Len(q) ELSE Len(S.s) IN
         (IF S.seq # seqno THEN {FSig("C10", "SeqNumbers", "mfhd", "sequence")} ELSE {})
    \cup (IF S.trunn # Len(q) \/ Len(S.s) # Len(q) \/ ~S.parsed THEN {FSig("C10", "Conservation", "trun", "count")} ELSE {})
    \cup (IF \E i \in 1..n : S.s[i].z # Len(q[i].data) THEN {FSig("C10", "Conservation", "trun", "size")} ELSE {})
    \cup (IF \E i \in 1..n : "oob" \in DOMAIN S.s[i] THEN {FSig("C10", "Conservation", "mdat", "out-of-segment")}
          ELSE IF \E i \in 1..n : "b" \in DOMAIN S.s[i] /\ S.s[i].b # q[i].data
               THEN {FSig("C10", "Conservation", "mdat",
                          IF \E i, j \in 1..n : i # j /\ S.s[i].b = q[j].data /\ S.s[i].b # q[i].data THEN "reordered" ELSE "altered")}
               ELSE {})
    \cup (IF Len(S.mdat) # 1 THEN {FSig("C10", "DataOffset", "mdat", "count")}
          ELSE IF n >= 1 /\ S.s[1].o # S.mdat[1].po THEN {FSig("C10", "DataOffset", "trun", "not-at-mdat-payload")}
          ELSE IF SumSeq([i \in 1..n |-> S.s[i].z]) # S.mdat[1].pl THEN {FSig("C10", "DataOffset", "mdat", "payload-size")}
          ELSE {})
    \cup (IF S.tfhdflags % 2 = 1 THEN {FSig("C10", "DataOffset", "tfhd", "base-not-moof")} ELSE {})   \* explicit base_data_offset: not fragment-relative
    \* "altered": the sync flag is part of the accepted write (C11 states the same fact about the non-sync bit)
    \cup (IF \E i \in 1..n : "nonsync" \in DOMAIN S.s[i] /\ S.s[i].nonsync # ~q[i].sync
          THEN {FSig("C10", "Conservation", "trun", "sync-flag-altered")} ELSE {})

C11Seg(S, q) ==
    LET n == IF Len(q) < Len(S.s) THEN Len(q) ELSE Len(S.s)
        prev == IF emitted = << >> THEN << >> ELSE emitted[Len(emitted)]
        allTwo == Len(q) >= 2 /\ \A k \in 1..Len(emitted) : emitted[k].n >= 2
        constant == cadence >= 0
    IN
         (IF \E i \in 1..n : ExpDurF(q, i) # None /\ ExpDurF(q, i) <= fcfg.w32 /\ ("d" \notin DOMAIN S.s[i] \/ S.s[i].d # ExpDurF(q, i))
          THEN {FSig("C11", "InSegmentTiming", "trun", "duration")} ELSE {})
    \cup (IF \E i \in 1..n : ExpDurF(q, i) # None /\ ExpDurF(q, i) <= fcfg.w32 /\ "dr" \in DOMAIN S.s[i] /\ S.s[i].dr # 0 THEN {FSig("C11", "InSegmentTiming", "trun", "duration-off-grid")} ELSE {})
    \cup (IF \E i \in 1..n : (q[i].pts - q[i].dts <= fcfg.i32 /\ q[i].dts - q[i].pts <= (IF "i32n" \in DOMAIN fcfg THEN fcfg.i32n ELSE fcfg.i32))
                              /\ ("c" \notin DOMAIN S.s[i] \/ S.s[i].c # q[i].pts - q[i].dts
                                  \/ ("cr" \in DOMAIN S.s[i] /\ S.s[i].cr # 0))
          THEN {FSig("C11", "InSegmentTiming", "trun", "composition-offset")} ELSE {})
    \cup (IF \E i \in 1..n : "nonsync" \notin DOMAIN S.s[i] \/ S.s[i].nonsync # ~q[i].sync
          THEN {FSig("C11", "InSegmentTiming", "trun", "sync-flag")} ELSE {})
    \cup (IF prev # << >> /\ S.tfdt < prev.base THEN {FSig("C11", "BaseMonotone", "tfdt", "backwards")} ELSE {})
    \cup (IF prev # << >> /\ S.tfdt < prev.last THEN {FSig("C11", "BaseCoversPrevious", "tfdt", "before-previous-last")} ELSE {})
    \cup (IF S.tfdtr # 0 THEN {FSig("C11", "BaseMonotone", "tfdt", "off-grid")} ELSE {})
    \cup (IF constant /\ allTwo /\ emitted # << >>
             /\ S.tfdt - q[1].dts # emitted[1].base - emitted[1].first
          THEN {FSig("C11", "ConstantCadence", "tfdt", "offset-varies")} ELSE {})

(* ---- C16 on a segment: trun durations and composition offsets are 32-bit ---- *)
C16Seg(S, q) ==
    LET n == IF Len(q) < Len(S.s) THEN Len(q) ELSE Len(S.s)
        i32n == IF "i32n" \in DOMAIN fcfg THEN fcfg.i32n ELSE fcfg.i32 IN
         (IF \E i \in 1..n : ExpDurF(q, i) # None /\ ExpDurF(q, i) > fcfg.w32
          THEN {FSig("C16", "FieldsFit", "trun", "sample-duration-exceeds-32-bit-field")} ELSE {})
    \cup (IF \E i \in 1..n : q[i].pts - q[i].dts > fcfg.i32 \/ q[i].dts - q[i].pts > i32n
          THEN {FSig("C16", "FieldsFit", "trun", "composition-offset-exceeds-32-bit-field")} ELSE {})
=============================================================================
