------------------------------- MODULE AnnexB -------------------------------
(* Declarative semantics of Annex B start-code framing (ITU-T H.264/H.265     *)
(* Annex B) and of its conversion to 4-byte length-prefixed units as stored   *)
(* in MP4 (ISO/IEC 14496-15).  Property C14; also used by C01 (Stored) and    *)
(* C07 (first parameter sets).                                                *)
(*                                                                            *)
(* The definition is positional and set-based on purpose: it does not scan    *)
(* with a cursor the way an implementation does.                              *)
EXTENDS Bytes

SC3(d, p) == p + 2 <= Len(d) /\ d[p] = 0 /\ d[p+1] = 0 /\ d[p+2] = 1
SC4(d, p) == p + 3 <= Len(d) /\ d[p] = 0 /\ d[p+1] = 0 /\ d[p+2] = 0 /\ d[p+3] = 1

(* Positions at which a start code (either form) begins.                      *)
Begins(d) == { p \in 1..Len(d) : SC3(d, p) \/ SC4(d, p) }

(* The 4-byte form wins at a position where both are readable.                *)
CodeLen(d, p) == IF SC4(d, p) THEN 4 ELSE 3

(* First start-code beginning at or after position c; 0 if none.              *)
NextSC(d, c) == LET S == { p \in Begins(d) : p >= c }
                IN  IF S = {} THEN 0 ELSE MinOf(S)

(* Units: scanning starts at c; a unit runs from the end of a start code to   *)
(* the beginning of the next one (or the end of the input).  Scanning resumes *)
(* AT the next beginning.  Units may be empty (two adjacent start codes).     *)
RECURSIVE UnitsFrom(_, _)
UnitsFrom(d, c) ==
    LET p == NextSC(d, c) IN
    IF p = 0 THEN << >>
    ELSE LET s == p + CodeLen(d, p)          \* first payload position
             q == NextSC(d, s)               \* next beginning, 0 if none
             e == IF q = 0 THEN Len(d) ELSE q - 1
         IN  << Slice(d, s, e) >> \o (IF q = 0 THEN << >> ELSE UnitsFrom(d, q))

Units(d) == UnitsFrom(d, 1)

(* total length of the start codes that delimit the units (same scan) *)
RECURSIVE CodesFrom(_, _)
CodesFrom(d, c) ==
    LET p == NextSC(d, c) IN
    IF p = 0 THEN 0
    ELSE LET s == p + CodeLen(d, p)
             q == NextSC(d, s)
         IN CodeLen(d, p) + (IF q = 0 THEN 0 ELSE CodesFrom(d, q))
StartCodeBytes(d) == CodesFrom(d, 1)

(* NAL units proper: the non-empty runs.                                      *)
Nals(d) == SelectSeq(Units(d), LAMBDA u : u # << >>)

(* Length-prefixed form.  No unit at all => the whole (non-empty) input is    *)
(* one unit.                                                                  *)
Prefixed(us) == Concat([ i \in 1..Len(us) |-> BE32(Len(us[i])) \o us[i] ])

ToLengthPrefixed(d) ==
    IF Nals(d) = << >>
    THEN IF d = << >> THEN << >> ELSE BE32(Len(d)) \o d
    ELSE Prefixed(Nals(d))

(* Inverse reading of a length-prefixed string: it must parse exactly to its  *)
(* end.  Returns the payload list, or << <<-1>> >> if it does not parse.            *)
RECURSIVE ParsePrefixed(_, _)
ParsePrefixed(s, p) ==
    IF p = Len(s) + 1 THEN << >>
    ELSE IF p + 3 > Len(s) \/ ~FitsU32(s, p) THEN << << -1 >> >>
    ELSE LET n == U32(s, p) IN
         IF p + 3 + n > Len(s) THEN << << -1 >> >>
         ELSE LET rest == ParsePrefixed(s, p + 4 + n) IN
              IF rest = << << -1 >> >> THEN << << -1 >> >>
              ELSE << Slice(s, p + 4, p + 3 + n) >> \o rest

(* C14, first sentence, as a predicate over (input, output).                  *)
ReframeExact(d, out) ==
    LET want == IF Nals(d) = << >> /\ d # << >> THEN << d >> ELSE Nals(d)
    IN  ParsePrefixed(out, 1) = want

-----------------------------------------------------------------------------
(* NAL typing and "first parameter set" selection (C07, C04).                 *)
H264Type(u) == u[1] % 32
H265Type(u) == (u[1] \div 2) % 64

FirstOf(us, T(_), t) ==
    LET I == { i \in 1..Len(us) : T(us[i]) = t }
    IN  IF I = {} THEN << >> ELSE us[MinOf(I)]

H264Sps(d) == FirstOf(Nals(d), H264Type, 7)
H264Pps(d) == FirstOf(Nals(d), H264Type, 8)
H265Vps(d) == FirstOf(Nals(d), H265Type, 32)
H265Sps(d) == FirstOf(Nals(d), H265Type, 33)
H265Pps(d) == FirstOf(Nals(d), H265Type, 34)

H264HasConfig(d) == H264Sps(d) # << >> /\ H264Pps(d) # << >>
H265HasConfig(d) == H265Vps(d) # << >> /\ H265Sps(d) # << >> /\ H265Pps(d) # << >>

H264HasIdr(d) == \E i \in 1..Len(Nals(d)) : H264Type(Nals(d)[i]) = 5
H265HasIdr(d) == \E i \in 1..Len(Nals(d)) : H265Type(Nals(d)[i]) \in 19..21

=============================================================================
