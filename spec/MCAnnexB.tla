------------------------------ MODULE MCAnnexB ------------------------------
(* Design check of AnnexB.tla: the two formulations in the module agree for     *)
(* every byte string up to MaxLen over a start-code-relevant alphabet:          *)
(*  - the conversion (set-based start-code positions, units, length prefixes)   *)
(*    satisfies the statement-level predicate ReframeExact (its output parses   *)
(*    exactly to its end and yields the non-empty runs, or the whole input);    *)
(*  - units never contain a start code, and the units plus the start codes and  *)
(*    the leading garbage account for every input byte.                         *)
EXTENDS AnnexB, TLC
CONSTANTS MaxLen, Alphabet
VARIABLE d
Init == d = << >>
Next == Len(d) < MaxLen /\ \E b \in Alphabet : d' = Append(d, b)
Spec == Init /\ [][Next]_d

ConversionMeetsStatement == ReframeExact(d, ToLengthPrefixed(d))
UnitsAreClean == \A i \in 1..Len(Units(d)) :
                    LET u == Units(d)[i] IN \A p \in 1..Len(u) : ~SC3(u, p) /\ ~SC4(u, p)
(* bytes are conserved: leading garbage + sum over start codes and units = input length *)
Conserved == LET p == NextSC(d, 1) IN
             IF p = 0 THEN Units(d) = << >>
             ELSE (p - 1) + SumSeq([i \in 1..Len(Units(d)) |-> Len(Units(d)[i])]) + StartCodeBytes(d) = Len(d)
=============================================================================
