-------------------------------- MODULE Meta --------------------------------
(***************************************************************************)
(* Metadata (property C18): Unix second -> ISO-8601 UTC calendar date-time  *)
(* (closed-form civil-from-days, checked against the forward function       *)
(* DaysFromCivil by MCMeta), ISO-639-2/T language packing in mdhd, and the  *)
(* iTunes-style udta/meta/ilst shape.                                       *)
(***************************************************************************)
EXTENDS Bytes

(* ---- calendar ---- *)
IsLeap(y) == (y % 4 = 0 /\ y % 100 # 0) \/ y % 400 = 0
DaysInMonth(y, m) == IF m = 2 THEN (IF IsLeap(y) THEN 29 ELSE 28)
                     ELSE IF m \in {4, 6, 9, 11} THEN 30 ELSE 31

(* days since 1970-01-01 of a civil date: by counting, the way the calendar is defined *)
LeapsBefore(y) == ((y - 1) \div 4) - ((y - 1) \div 100) + ((y - 1) \div 400)    \* leap years in 1..y-1
DaysBeforeYear(y) == 365 * (y - 1970) + (LeapsBefore(y) - LeapsBefore(1970))
DaysBeforeMonth(y, m) == SumSeq([k \in 1..(m - 1) |-> DaysInMonth(y, k)])
DaysFromCivil(y, m, d) == DaysBeforeYear(y) + DaysBeforeMonth(y, m) + (d - 1)

(* civil date of a day count: closed form over 400-year eras starting 0000-03-01 *)
Civil(days) ==
    LET z == days + 719468
        era == z \div 146097
        doe == z % 146097
        yoe == (doe - doe \div 1460 + doe \div 36524 - doe \div 146096) \div 365
        doy == doe - (365 * yoe + yoe \div 4 - yoe \div 100)
        mp == (5 * doy + 2) \div 153
        d == doy - (153 * mp + 2) \div 5 + 1
        m == IF mp < 10 THEN mp + 3 ELSE mp - 9
        y == yoe + era * 400 + (IF m <= 2 THEN 1 ELSE 0)
    IN [y |-> y, m |-> m, d |-> d]

MaxDay == 2932896        \* 9999-12-31

Digit(n) == 48 + n
Dig2(n) == << Digit(n \div 10), Digit(n % 10) >>
Dig4(n) == << Digit(n \div 1000), Digit((n \div 100) % 10), Digit((n \div 10) % 10), Digit(n % 10) >>

(* "YYYY-MM-DDTHH:MM:SSZ" as ASCII bytes *)
DateBytes(days, sod) ==
    LET c == Civil(days) IN
    Dig4(c.y) \o << 45 >> \o Dig2(c.m) \o << 45 >> \o Dig2(c.d) \o << 84 >>
    \o Dig2(sod \div 3600) \o << 58 >> \o Dig2((sod \div 60) % 60) \o << 58 >> \o Dig2(sod % 60) \o << 90 >>

(* ---- ISO-639-2/T packing: three lower-case letters, each minus 0x60, 5 bits ---- *)
LangIsCode(l) == Len(l) = 3 /\ \A i \in 1..3 : l[i] \in 97..122
PackedLang(l) == << l[1] - 96, l[2] - 96, l[3] - 96 >>
Und == << 21, 14, 4 >>

(* ---- monitors ---- *)
MSig(q, site, cls) == << "C18", q, site, cls >>

RawIdxM(F, path) == { i \in 1..Len(F.raw) : F.raw[i].p = path }
RawCount(F, path) == Cardinality(RawIdxM(F, path))
RawBM(F, path) == LET r == F.raw[MinOf(RawIdxM(F, path))] IN IF "b" \in DOMAIN r THEN r.b ELSE r.pre

(* value of an ilst string item: data box = type(4) = 1 (UTF-8), locale(4) = 0, then the bytes *)
ItemSigs(F, item, want, q) ==
    LET path == "moov.udta.meta.ilst." \o item \o ".data" IN
    IF RawCount(F, path) # 1 THEN {MSig(q, item, IF RawCount(F, path) = 0 THEN "missing" ELSE "repeated")}
    ELSE LET b == RawBM(F, path) IN
         IF Len(b) < 8 THEN {MSig(q, item, "data-box-truncated")}
         ELSE (IF Slice(b, 1, 8) # << 0,0,0,1, 0,0,0,0 >> THEN {MSig(q, item, "type-locale")} ELSE {})
         \cup (IF Slice(b, 9, Len(b)) # want THEN {MSig(q, item, "value")} ELSE {})

MetaSigs(F, cfg) ==
    LET m == IF "meta" \in DOMAIN cfg THEN cfg.meta ELSE [none |-> TRUE]
        hasTitle == "title" \in DOMAIN m
        hasDate == "ct_days" \in DOMAIN m
        hasLang == "lang" \in DOMAIN m
        wantUdta == hasTitle \/ hasDate
        judgeUdta == ~("ct_raw" \in DOMAIN m)
    IN
         (IF judgeUdta /\ F.udta # wantUdta THEN {MSig("UdtaPresence", "moov", IF F.udta THEN "unexpected" ELSE "missing")} ELSE {})
    \cup (IF hasTitle /\ F.udta THEN ItemSigs(F, "~A9nam", m.title, "TitleBytes") ELSE {})
    \cup (IF ~hasTitle /\ F.udta /\ RawCount(F, "moov.udta.meta.ilst.~A9nam.data") # 0 THEN {MSig("TitleBytes", "~A9nam", "unexpected")} ELSE {})
    \cup (IF hasDate /\ F.udta /\ m.ct_days <= MaxDay THEN ItemSigs(F, "~A9day", DateBytes(m.ct_days, m.ct_sod), "DateString") ELSE {})
    \cup (IF ~hasDate /\ judgeUdta /\ F.udta /\ RawCount(F, "moov.udta.meta.ilst.~A9day.data") # 0 THEN {MSig("DateString", "~A9day", "unexpected")} ELSE {})
    \cup (IF F.udta /\ RawCount(F, "moov.udta.meta") = 1 /\ RawBM(F, "moov.udta.meta") # << 0,0,0,0 >> THEN {MSig("UdtaShape", "meta", "fullbox-header")} ELSE {})
    \cup (IF F.udta /\ RawCount(F, "moov.udta.meta.hdlr") # 1 THEN {MSig("UdtaShape", "meta", "hdlr")} ELSE {})
    \cup UNION { LET T == F.tracks[t]
                     want == IF hasLang /\ LangIsCode(m.lang) THEN PackedLang(m.lang) ELSE Und IN
                 IF hasLang /\ ~LangIsCode(m.lang) THEN {}      \* malformed codes: only C12 (no panic) is claimed
                 ELSE IF "lang" \notin DOMAIN T THEN {MSig("LanguageRoundTrip", "mdhd", "missing")}
                 ELSE (IF T.lang # want THEN {MSig("LanguageRoundTrip", "mdhd", IF hasLang THEN "wrong-code" ELSE "not-und")} ELSE {})
                      \cup (IF T.langpad # 0 THEN {MSig("LanguageRoundTrip", "mdhd", "pad-bit")} ELSE {})
                 : t \in 1..Len(F.tracks) }
=============================================================================
