------------------------------- MODULE TraceFn -------------------------------
(***************************************************************************)
(* Judge for pure-function tables recorded from the real library            *)
(* (codec::common / h264 / h265): every byte string up to a length bound    *)
(* over a small alphabet.  TLC checks                                       *)
(*   - completeness: event number n of a shard carries string number        *)
(*     base + stride*(n-1) of the canonical enumeration StrOf, and the      *)
(*     shard ends exactly at the bound (a skipped or repeated input is a    *)
(*     tool error, not a verdict);                                          *)
(*   - C14: the outputs equal the declarative Annex B semantics of          *)
(*     AnnexB.tla; C07: "first parameter sets"; C12: no panic.              *)
(***************************************************************************)
EXTENDS AnnexB, Av1Seq, Vp9Hdr, OpusPkt, Json, IOUtils, TLC

Rec == ndJsonDeserialize(IOEnv.TRACE)

VARIABLES l, hdr, n      \* position, header of the shard, number of fn events consumed
tvars == << l, hdr, n >>

FSig(p, q, site, cls) == << p, q, site, cls >>
SigLine(i, k, s) == PrintT("SIG|" \o ToString(i) \o "|" \o ToString(k) \o "|" \o ToString(s))

(* ---- canonical enumeration: k-th string (0-based), length-lexicographic ---- *)
Pow(b, e) == b ^ e
FirstOfLen(b, len) == (Pow(b, len) - 1) \div (b - 1)          \* index of the first string of that length
LenOf(b, k) == CHOOSE len \in 0..12 : FirstOfLen(b, len) <= k /\ k < FirstOfLen(b, len + 1)
StrOf(alpha, k) ==
    LET b == Len(alpha)
        len == LenOf(b, k)
        r == k - FirstOfLen(b, len)
    IN [i \in 1..len |-> alpha[((r \div Pow(b, len - i)) % b) + 1]]
Total(b, maxlen) == FirstOfLen(b, maxlen + 1)

TInit == l = 1 /\ hdr = [base |-> 0, stride |-> 1, maxlen |-> 0, alpha |-> << 0 >>, cfg |-> FALSE] /\ n = 0

THdr == /\ l <= Len(Rec) /\ Rec[l].ev = "fnhdr" /\ l' = l + 1 /\ hdr' = Rec[l] /\ n' = 0

ExpFsc(d, from) ==    \* find_start_code(d, from), 1-based position (0 = none)
    LET p == NextSC(d, from) IN IF p = 0 THEN << 0, 0 >> ELSE << p, CodeLen(d, p) >>

FnSigs(e) ==
    LET d == e["in"]
        want == ToLengthPrefixed(d)
    IN   (IF "avcc" \in DOMAIN e /\ e.avcc # want
          THEN {FSig("C14", "Reframe", "annexb_to_avcc", IF ParsePrefixed(e.avcc, 1) = << << -1 >> >> THEN "does-not-parse" ELSE "wrong-units")} ELSE {})
    \cup (IF "avcc" \in DOMAIN e /\ ~ReframeExact(d, e.avcc) THEN {FSig("C14", "ReframeExact", "annexb_to_avcc", "statement")} ELSE {})
    \cup (IF "hvcc" \in DOMAIN e /\ e.hvcc # want
          THEN {FSig("C14", "Reframe", "hevc_annexb_to_hvcc", IF ParsePrefixed(e.hvcc, 1) = << << -1 >> >> THEN "does-not-parse" ELSE "wrong-units")} ELSE {})
    \cup (IF "iter" \in DOMAIN e /\ e.iter # Units(d) THEN {FSig("C14", "Units", "AnnexBNalIter", "differs")} ELSE {})
    \cup (IF "fsc" \in DOMAIN e /\ \E f \in 1..Len(e.fsc) : e.fsc[f] # ExpFsc(d, f)
          THEN {FSig("C14", "StartCode", "find_start_code", "differs")} ELSE {})
    \cup (IF "avc" \in DOMAIN e THEN
            (IF e.avc.some # H264HasConfig(d) THEN {FSig("C07", "FirstParamSets", "extract_avc_config", IF e.avc.some THEN "spurious" ELSE "missed")}
             ELSE IF e.avc.some /\ (e.avc.sps # H264Sps(d) \/ e.avc.pps # H264Pps(d))
                  THEN {FSig("C07", "FirstParamSets", "extract_avc_config", "not-the-first")} ELSE {})
          ELSE {})
    \cup (IF "hevc" \in DOMAIN e THEN
            (IF e.hevc.some # H265HasConfig(d) THEN {FSig("C07", "FirstParamSets", "extract_hevc_config", IF e.hevc.some THEN "spurious" ELSE "missed")}
             ELSE IF e.hevc.some /\ (e.hevc.vps # H265Vps(d) \/ e.hevc.sps # H265Sps(d) \/ e.hevc.pps # H265Pps(d))
                  THEN {FSig("C07", "FirstParamSets", "extract_hevc_config", "not-the-first")} ELSE {})
          ELSE {})
    \cup (IF "av1" \in DOMAIN e THEN
            LET s == IF d = << >> THEN [found |-> FALSE] ELSE FirstSeqObu(d, 1)
                r == Av1Parsed(d) IN
            IF ~s.found THEN (IF e.av1.some THEN {FSig("C07", "Av1Extract", "extract_av1_config", "config-without-sequence-header")} ELSE {})
            ELSE IF r.ok /\ r.profile <= 2 /\ TrailingOk(Av1SeqPayload(d), r.endbit) THEN
                 (IF ~e.av1.some THEN (IF r.mono = 1 THEN {FSig("C07", "Av1Extract", "extract_av1_config", "monochrome-header-rejected")}
                                       ELSE {FSig("C07", "Av1Extract", "extract_av1_config", "valid-header-rejected")})
                  ELSE (IF e.av1.profile # r.profile \/ e.av1.level # r.level \/ e.av1.tier # r.tier \/ e.av1.hb # r.hb \/ e.av1.tb # r.tb
                           \/ e.av1.mono # r.mono \/ e.av1.sx # r.sx \/ e.av1.sy # r.sy
                        THEN {FSig("C07", "Av1Extract", "extract_av1_config", "fields")} ELSE {})
                       \cup (IF e.av1.csp # r.csp THEN {FSig("C07", "Av1Extract", "extract_av1_config",
                                   IF r.mono = 1 THEN "chroma-sample-position-of-monochrome" ELSE "chroma-sample-position")} ELSE {})
                       \cup (IF e.av1.obu # Av1SeqObuBytes(d) THEN {FSig("C07", "Av1Extract", "extract_av1_config", "obu-bytes")} ELSE {}))
            ELSE {}          \* truncated / malformed trailing bits / reserved profile: not judged
          ELSE {})
    \cup (IF "obu" \in DOMAIN e /\ d # << >> THEN
            LET o == ObuHeaderAt(d, 1) IN
            IF e.obu.some # o.ok THEN {FSig("C07", "ObuFraming", "parse_obu_header", IF e.obu.some THEN "accepts-malformed" ELSE "rejects-well-formed")}
            ELSE IF o.ok /\ (e.obu.type # o.type \/ e.obu.ext # o.ext \/ e.obu.hdr # o.hdr \/ (o.payload < BIG /\ e.obu.payload # o.payload))
                 THEN {FSig("C07", "ObuFraming", "parse_obu_header", "fields")} ELSE {}
          ELSE {})
    \cup (IF "obucount" \in DOMAIN e THEN
            LET RECURSIVE cnt(_)
                cnt(p) == IF p > Len(d) THEN 0 ELSE LET o == ObuAt(d, p) IN IF ~o.ok THEN 0 ELSE IF o.total = 0 THEN 1 ELSE 1 + cnt(p + o.total)
            IN IF e.obucount # cnt(1) THEN {FSig("C07", "ObuFraming", "ObuIter", "count")} ELSE {}
          ELSE {})
    \cup (IF "vp9" \in DOMAIN e THEN
            IF e.vp9.some # Vp9HasConfig(d) THEN {FSig("C07", "Vp9Extract", "extract_vp9_config", IF e.vp9.some THEN "spurious" ELSE "missed")}
            ELSE IF e.vp9.some THEN
                 LET f == Vp9Fields(d) IN
                 IF e.vp9.profile # f.profile \/ e.vp9.depth # f.depth \/ e.vp9.cs # f.cs \/ e.vp9.tf # f.tf \/ e.vp9.mc # f.mc \/ e.vp9.fr # f.fr
                 THEN {FSig("C07", "Vp9Extract", "extract_vp9_config", "fields")} ELSE {}
            ELSE {}
          ELSE {})
    \cup (IF "vp9key" \in DOMAIN e /\ (e.vp9key = "key") # Vp9IsKey(d) THEN {FSig("C04", "KeyDetect", "is_vp9_keyframe", "differs")} ELSE {})
    \cup (IF "vp9valid" \in DOMAIN e /\ e.vp9valid # Vp9Marker(d) THEN {FSig("X01", "Vp9Valid", "is_valid_vp9_frame", IF e.vp9valid THEN "accepts-without-marker" ELSE "rejects-marker")} ELSE {})   \* beyond the list
    \cup (IF "opusvalid" \in DOMAIN e /\ e.opusvalid # ValidOpus(d) THEN {FSig("C04", "OpusValid", "is_valid_opus_packet", IF e.opusvalid THEN "accepts-invalid" ELSE "rejects-valid")} ELSE {})
    \cup (IF "opussamples" \in DOMAIN e /\ e.opussamples # (IF ValidOpus(d) THEN PacketSamples(d) ELSE -1)
          THEN {FSig("C04", "OpusValid", "opus_packet_samples", "value")} ELSE {})
    \cup (IF "key264" \in DOMAIN e /\ e.key264 # H264HasIdr(d) THEN {FSig("C04", "KeyDetect", "is_h264_keyframe", "differs")} ELSE {})
    \* is_hevc_keyframe: some NAL unit of an IRAP type (BLA 16-18, IDR 19-20, CRA 21; ITU-T H.265 Table 7-1)
    \cup (IF "key265" \in DOMAIN e /\ e.key265 # (\E i \in 1..Len(Nals(d)) : H265Type(Nals(d)[i]) \in 16..21)
          THEN {FSig("C04", "KeyDetect", "is_hevc_keyframe", "differs")} ELSE {})
    \cup { FSig("C12", "Total", e.panics[i].f, ToString(<< "panic", e.panics[i].msg >>)) : i \in 1..Len(e.panics) }

TFn == /\ l <= Len(Rec) /\ Rec[l].ev = "fn" /\ l' = l + 1 /\ hdr' = hdr /\ n' = n + 1
       /\ LET e == Rec[l]  k == hdr.base + hdr.stride * n IN
          /\ ("explicit" \in DOMAIN hdr)                                \* explicit list of inputs: nothing to enumerate
               \/ (e.k = k /\ e["in"] = StrOf(hdr.alpha, k))
               \/ (PrintT("INCOMPLETE|" \o ToString(l)) /\ FALSE)      \* enumeration broken: stop (tool error)
          /\ \A s \in FnSigs(e) : SigLine(e.k, l, s)

TEnd == /\ l <= Len(Rec) /\ Rec[l].ev = "fnend" /\ l' = l + 1 /\ UNCHANGED << hdr, n >>
        /\ LET tot == Total(Len(hdr.alpha), hdr.maxlen)
               want == IF tot <= hdr.base THEN 0 ELSE ((tot - 1 - hdr.base) \div hdr.stride) + 1
           IN (n = want) \/ (PrintT("INCOMPLETE|count") /\ FALSE)

TNext == THdr \/ TFn \/ TEnd
TSpec == TInit /\ [][TNext]_tvars

Consumed == IF TLCGet("stats").diameter = Len(Rec) + 1 THEN PrintT("CONSUMED|" \o ToString(Len(Rec)))
            ELSE PrintT("STUCK|" \o ToString(TLCGet("stats").diameter) \o "|" \o ToString(Len(Rec))) /\ FALSE
=============================================================================
