------------------------------- MODULE MCMeta -------------------------------
(* Design check of Meta.tla: the closed-form Civil is the inverse of the        *)
(* counting definition DaysFromCivil and is strictly monotone, for every day    *)
(* of [From, To]; the day count is the only variable, so TLC visits each day.   *)
EXTENDS Meta, TLC
CONSTANTS From, To, Stride
VARIABLE day
Init == day = From
Next == day + Stride <= To /\ day' = day + Stride
Spec == Init /\ [][Next]_day
RoundTrip == LET c == Civil(day) IN
             /\ c.m \in 1..12 /\ c.d \in 1..DaysInMonth(c.y, c.m)
             /\ DaysFromCivil(c.y, c.m, c.d) = day
Monotone == day > From =>
            LET a == Civil(day - 1)  b == Civil(day) IN
            \/ (b.y = a.y /\ b.m = a.m /\ b.d = a.d + 1)
            \/ (b.y = a.y /\ b.m = a.m + 1 /\ b.d = 1 /\ a.d = DaysInMonth(a.y, a.m))
            \/ (b.y = a.y + 1 /\ b.m = 1 /\ b.d = 1 /\ a.m = 12 /\ a.d = 31)
=============================================================================
