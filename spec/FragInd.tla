------------------------------- MODULE FragInd -------------------------------
(* Counter abstraction of Frag.tla (queue length, accepted, handed out, sequence    *)
(* number, number of emitted segments, last accepted decode time) with an           *)
(* inductive invariant for the conservation and numbering clauses of C10, for       *)
(* histories of ANY length.  Discharged with Apalache:                              *)
(*   apalache-mc check --init=Init   --inv=IndInv --length=0 FragInd.tla            *)
(*   apalache-mc check --init=IndInit --inv=IndInv --length=1 FragInd.tla           *)
EXTENDS Integers

VARIABLES
    \* @type: Int;
    pendingLen,
    \* @type: Int;
    accepted,
    \* @type: Int;
    flushedN,
    \* @type: Int;
    seqno,
    \* @type: Int;
    emittedN,
    \* @type: Int;
    lastDts

Init == pendingLen = 0 /\ accepted = 0 /\ flushedN = 0 /\ seqno = 1 /\ emittedN = 0 /\ lastDts = -1

\* write_video(dts): accepted iff dts >= lastDts (or nothing accepted yet); a rejected write changes nothing
Write == \E dts \in Nat :
            IF lastDts = -1 \/ dts >= lastDts
            THEN /\ pendingLen' = pendingLen + 1 /\ accepted' = accepted + 1 /\ lastDts' = dts
                 /\ UNCHANGED << flushedN, seqno, emittedN >>
            ELSE UNCHANGED << pendingLen, accepted, flushedN, seqno, emittedN, lastDts >>

\* flush_segment(): nothing queued -> no segment, no sequence number consumed
Flush == IF pendingLen = 0
         THEN UNCHANGED << pendingLen, accepted, flushedN, seqno, emittedN, lastDts >>
         ELSE /\ flushedN' = flushedN + pendingLen /\ pendingLen' = 0
              /\ seqno' = seqno + 1 /\ emittedN' = emittedN + 1
              /\ UNCHANGED << accepted, lastDts >>

\* ready_to_flush / current_fragment_duration_ms / init_segment
Query == UNCHANGED << pendingLen, accepted, flushedN, seqno, emittedN, lastDts >>

Next == Write \/ Flush \/ Query

IndInv == /\ pendingLen >= 0 /\ accepted >= 0 /\ flushedN >= 0 /\ emittedN >= 0 /\ lastDts >= -1
          /\ flushedN + pendingLen = accepted            \* Conservation
          /\ seqno = emittedN + 1                        \* SeqNumbers
          /\ (accepted = 0 <=> lastDts = -1)
          /\ emittedN <= flushedN                        \* every emitted segment holds at least one sample

\* any state satisfying the invariant (for the inductive step)
IndInit == /\ pendingLen \in Int /\ accepted \in Int /\ flushedN \in Int /\ seqno \in Int /\ emittedN \in Int /\ lastDts \in Int
           /\ IndInv
=============================================================================
