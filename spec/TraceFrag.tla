------------------------------ MODULE TraceFrag ------------------------------
(* Trace specification for the fragmented muxer: replays recorded executions  *)
(* of FragmentedMuxer through the actions of Frag.tla; monitors print          *)
(* signatures and never disable a step.                                        *)
EXTENDS Frag, BoxTree, BoxLayout, Json, IOUtils

Rec == ndJsonDeserialize(IOEnv.TRACE)

VARIABLES l, inst, initLen

tvars == << fcfg, pending, lastDts, seqno, emitted, accepted, flushedN, cadence, initSeen, l, inst, initLen >>

SigLine(i, n, s) == PrintT("SIG|" \o ToString(i) \o "|" \o ToString(n) \o "|" \o ToString(s))
Emit(S) == \A s \in S : SigLine(inst, l, s)
Has(r, f) == f \in DOMAIN r

TInit == /\ l = 1 /\ inst = 0 /\ initLen = 0
         /\ FInitState([timescale |-> 90000, fragms |-> 2000, vc |-> "h264", judge_config |-> FALSE, w32 |-> 1073741824, i32 |-> 1073741824])

IsEv(e) == l <= Len(Rec) /\ Rec[l].ev = e
Crashed(e) == e.var \in {"panic", "hang"}
Judged == "nojudge" \notin DOMAIN fcfg
TotalSigs(op, e) ==
    IF e.var = "panic" THEN {FSig("C12", "Total", op, ToString(<< "panic", e.msg >>))}
    ELSE IF e.var = "hang" THEN {FSig("C12", "Terminates", op, "hang")} ELSE {}

TNew == /\ IsEv("new") /\ l' = l + 1 /\ inst' = Rec[l].i /\ initLen' = 0
        /\ fcfg' = Rec[l].cfg /\ pending' = << >> /\ lastDts' = None /\ seqno' = 1 /\ emitted' = << >>
        /\ accepted' = 0 /\ flushedN' = 0 /\ cadence' = None /\ initSeen' = FALSE
        /\ Emit((IF Rec[l].var = "panic" THEN {FSig("C12", "Total", "new_with_fragment", ToString(<< "panic", Rec[l].msg >>))} ELSE {})
                \cup (IF Has(Rec[l], "must_build") /\ Rec[l].must_build # Rec[l].ok /\ Rec[l].var # "panic"
                      THEN {FSig("C04", "Legal", "new_with_fragment", IF Rec[l].ok THEN "accepted" ELSE ToString(<< "rejected", Rec[l].var >>))} ELSE {}))

TWrite == /\ IsEv("f_write") /\ l' = l + 1 /\ UNCHANGED << inst, initLen >>
          /\ LET e == Rec[l] IN
             /\ Emit(TotalSigs("f_write", e)
                     \cup (IF Judged /\ ~Crashed(e) /\ e.ok # WriteMustSucceed(e.dts)
                           THEN {FSig("C10", "RejectIff", "write_video", IF e.ok THEN "accepted-lower-dts" ELSE "rejected-legal")} ELSE {}))
             /\ IF Judged THEN DoFWrite(e.pts, e.dts, e.data, e.sync, e.ok) ELSE UNCHANGED fvars

SegSigs(S) ==
    C10Seg(S, pending) \cup C11Seg(S, pending) \cup C16Seg(S, pending)
    \cup (IF fcfg.facets.tree /\ Has(S, "tree") THEN SegmentSigs(S) ELSE {})
    \cup (IF fcfg.facets.raw /\ Has(S, "raw") THEN RawSigsSegment(S, fcfg, pending) ELSE {})

TFlush == /\ IsEv("f_flush") /\ l' = l + 1 /\ UNCHANGED << inst, initLen >>
          /\ LET e == Rec[l] IN
             /\ Emit(TotalSigs("f_flush", e)
                     \cup (IF Crashed(e) \/ ~Judged THEN {}
                           ELSE IF e.some # (pending # << >>)
                                THEN {FSig("C10", "EmptyFlush", "flush_segment", IF e.some THEN "segment-from-nothing" ELSE "nothing-from-samples")}
                           ELSE IF e.some THEN SegSigs(e.seg) ELSE {}))
             /\ IF ~Judged THEN UNCHANGED fvars
                ELSE IF e.some /\ ~Crashed(e) /\ Has(e, "seg")
                THEN DoFFlush(TRUE, e.seg.tfdt, SumSeq([i \in 1..Len(e.seg.s) |-> IF "d" \in DOMAIN e.seg.s[i] THEN e.seg.s[i].d ELSE 0]))
                ELSE DoFFlush(FALSE, 0, 0)

TQuery == /\ IsEv("f_query") /\ l' = l + 1 /\ UNCHANGED << inst, initLen >>
          /\ LET e == Rec[l] IN
             /\ Emit(TotalSigs(e.op, e)
                     \cup (IF Judged /\ ~Crashed(e) /\ fcfg.unit1 /\ e.op = "ready" /\ e.val # Ready
                           THEN {FSig("C10", "Readiness", "ready_to_flush", IF e.val THEN "early" ELSE "late")} ELSE {})
                     \cup (IF Judged /\ ~Crashed(e) /\ fcfg.unit1 /\ e.op = "dur" /\ e.val # SpanMs
                           THEN {FSig("C10", "Readiness", "current_fragment_duration_ms", "value")} ELSE {}))
             /\ DoFQuery

TFInit == /\ IsEv("f_init") /\ l' = l + 1 /\ inst' = inst
          /\ LET e == Rec[l] IN
             /\ Emit(TotalSigs("f_init", e)
                     \cup (IF Crashed(e) \/ ~Judged THEN {}
                           ELSE (IF initSeen /\ ~e.same_as_first THEN {FSig("C11", "InitStable", "init_segment", "changed")} ELSE {})
                                \cup (IF Has(e, "obs") /\ fcfg.facets.tree THEN InitSigs(e.obs) ELSE {})
                                \cup (IF Has(e, "obs") /\ fcfg.facets.raw THEN RawSigsInit(e.obs, fcfg) ELSE {})))
             /\ initLen' = IF Crashed(e) THEN initLen ELSE e.len
          /\ DoFInit

(* C05 for the fragmented muxer: history H vs. H without its rejected writes (facts logged by the harness) *)
TPair == /\ IsEv("pair") /\ l' = l + 1 /\ inst' = Rec[l].i /\ initLen' = initLen
         /\ LET e == Rec[l] IN
              \A s \in (IF e.rel # "filtered" THEN {}
                         ELSE (IF ~e.same_outcomes THEN {FSig("C05", "SameAsFiltered", "frag-outcomes", e.first_diff)} ELSE {})
                              \cup (IF ~e.same_bytes THEN {FSig("C05", "SameAsFiltered", "frag-segments", e.first_diff)} ELSE {})) :
                  SigLine(e.i, l, s)
         /\ UNCHANGED fvars

TNext == TNew \/ TWrite \/ TFlush \/ TQuery \/ TFInit \/ TPair
TSpec == TInit /\ [][TNext]_tvars

Consumed == IF TLCGet("stats").diameter = Len(Rec) + 1 THEN PrintT("CONSUMED|" \o ToString(Len(Rec)))
            ELSE PrintT("STUCK|" \o ToString(TLCGet("stats").diameter) \o "|" \o ToString(Len(Rec))) /\ FALSE
=============================================================================
