------------------------------- MODULE Vp9Hdr -------------------------------
(* The VP9 key-frame form that muxide documents and accepts (DESIGN.md A.5):  *)
(* marker 49 83 42, a byte [profile:2 show_existing:1 frame_type:1 ....], one  *)
(* ignored byte, one more ignored byte iff profile >= 2, width and height as   *)
(* base-128 little-endian var-uints of 1..5 bytes, an optional explicit render *)
(* size (selected by bits 2-3 of the next byte when at least one more byte     *)
(* follows it), then the colour byte and (for colour space # 0) a range byte.  *)
(* Properties C07, C04, C12.                                                   *)
EXTENDS Bytes

Vp9Marker(d) == Len(d) >= 3 /\ d[1] = 73 /\ d[2] = 131 /\ d[3] = 66
Vp9Profile(d) == d[4] \div 64
Vp9ShowExisting(d) == (d[4] \div 32) % 2
Vp9FrameType(d) == (d[4] \div 16) % 2

(* is_vp9_keyframe of the convenience API: marker, >= 4 bytes, key type *)
Vp9IsKey(d) == Vp9Marker(d) /\ Len(d) >= 4 /\ Vp9ShowExisting(d) = 0 /\ Vp9FrameType(d) = 0

(* Length of the var-uint that starts at 1-based position p; 0 if it does not *)
(* terminate within 5 bytes or runs off the end.                              *)
VarLen(d, p) ==
    LET K == { k \in 1..5 : p + k - 1 <= Len(d) /\ d[p + k - 1] < 128
                              /\ \A j \in 1..(k-1) : d[p + j - 1] >= 128 }
    IN IF K = {} THEN 0 ELSE MinOf(K)

(* Position (1-based) of the byte after width and height; 0 if malformed.     *)
Vp9AfterSize(d) ==
    IF ~(Vp9Marker(d) /\ Len(d) >= 6 /\ Vp9ShowExisting(d) = 0 /\ Vp9FrameType(d) = 0) THEN 0
    ELSE LET p0 == IF Vp9Profile(d) >= 2 THEN 7 ELSE 6 IN
         IF Vp9Profile(d) >= 2 /\ Len(d) < 7 THEN 0
         ELSE LET w == VarLen(d, p0) IN
              IF w = 0 THEN 0
              ELSE LET h == VarLen(d, p0 + w) IN IF h = 0 THEN 0 ELSE p0 + w + h

(* Position of the colour byte; 0 if malformed.  May be Len(d)+1 (defaults).  *)
Vp9ColourPos(d) ==
    LET p == Vp9AfterSize(d) IN
    IF p = 0 THEN 0
    ELSE IF p + 1 <= Len(d) /\ (d[p] \div 4) % 4 # 0
         THEN LET rw == VarLen(d, p + 1) IN
              IF rw = 0 THEN 0
              ELSE LET rh == VarLen(d, p + 1 + rw) IN IF rh = 0 THEN 0 ELSE p + 1 + rw + rh
         ELSE p

Vp9HasConfig(d) == Vp9ColourPos(d) # 0

(* The fields vpcC must show. *)
Vp9Fields(d) ==
    LET p == Vp9ColourPos(d) IN
    IF p > Len(d) THEN [profile |-> Vp9Profile(d), depth |-> 8, cs |-> 0, tf |-> 0, mc |-> 0, fr |-> 0]
    ELSE LET b == d[p]  cs == (b \div 2) % 8 IN
         [profile |-> Vp9Profile(d), depth |-> IF b % 2 = 1 THEN 10 ELSE 8, cs |-> cs,
          tf |-> (b \div 16) % 8, mc |-> b \div 128,
          fr |-> IF cs # 0 /\ p + 1 <= Len(d) THEN d[p + 1] % 2 ELSE 0]

(* Constructor for the bounded models. wl/hl: var-uint lengths (1..5).        *)
VarUint(len, low) == [i \in 1..len |-> IF i < len THEN 128 + (IF i = 1 THEN low ELSE 0) ELSE (IF len = 1 THEN low ELSE 1)]
MkVp9Key(profile, wl, hl, colour, range, tail) ==
    << 73, 131, 66, profile * 64, 0 >> \o (IF profile >= 2 THEN << 0 >> ELSE << >>)
    \o VarUint(wl, 64) \o VarUint(hl, 48) \o << colour, range >> \o tail
MkVp9Delta(tail) == << 73, 131, 66, 16, 0, 0 >> \o tail

=============================================================================
