------------------------------ MODULE TraceDates ------------------------------
(* Judge for the exhaustive creation-date table (C18): the k-th event of a shard *)
(* must carry day From + (base + shards*k')*Stride (completeness of the          *)
(* enumeration is checked, as for the byte-string tables), and the (c)day item   *)
(* found in the finished file must be DateBytes(day, second of day) of Meta.tla. *)
EXTENDS Meta, Json, IOUtils, TLC
Rec == ndJsonDeserialize(IOEnv.TRACE)
VARIABLES l, hdr, n
tvars == << l, hdr, n >>
SigLine(i, k, s) == PrintT("SIG|" \o ToString(i) \o "|" \o ToString(k) \o "|" \o ToString(s))
TInit == l = 1 /\ n = 0 /\ hdr = [from |-> 0, to |-> 0, stride |-> 1, base |-> 0, shards |-> 1]
THdr == l <= Len(Rec) /\ Rec[l].ev = "datehdr" /\ l' = l + 1 /\ hdr' = Rec[l] /\ n' = 0
DateSigs(e) ==
    IF e.var = "panic" THEN {<< "C12", "Total", "fin", ToString(<< "panic", e.msg >>) >>}
    ELSE IF "missing" \in DOMAIN e THEN {<< "C18", "DateString", "~A9day", "missing" >>}
    ELSE IF e.item # DateBytes(e.days, e.sod) THEN {<< "C18", "DateString", "~A9day", "value" >>} ELSE {}
TDate == /\ l <= Len(Rec) /\ Rec[l].ev = "date" /\ l' = l + 1 /\ hdr' = hdr /\ n' = n + 1
         /\ LET e == Rec[l]  k == hdr.base + hdr.shards * n IN
            /\ (e.k = k /\ e.days = hdr.from + k * hdr.stride /\ e.sod = ((e.days % 86400) * 7919) % 86400 /\ e.days <= MaxDay)
                 \/ (PrintT("INCOMPLETE|" \o ToString(l)) /\ FALSE)
            /\ \A s \in DateSigs(e) : SigLine(e.days, l, s)
TEnd == /\ l <= Len(Rec) /\ Rec[l].ev = "dateend" /\ l' = l + 1 /\ UNCHANGED << hdr, n >>
        /\ LET total == (hdr.to - hdr.from) \div hdr.stride + 1
               want == IF total <= hdr.base THEN 0 ELSE ((total - 1 - hdr.base) \div hdr.shards) + 1
           IN (n = want) \/ (PrintT("INCOMPLETE|count") /\ FALSE)
TNext == THdr \/ TDate \/ TEnd
TSpec == TInit /\ [][TNext]_tvars
Consumed == IF TLCGet("stats").diameter = Len(Rec) + 1 THEN PrintT("CONSUMED|" \o ToString(Len(Rec)))
            ELSE PrintT("STUCK|" \o ToString(TLCGet("stats").diameter) \o "|" \o ToString(Len(Rec))) /\ FALSE
=============================================================================
