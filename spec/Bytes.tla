------------------------------- MODULE Bytes -------------------------------
(* Byte-sequence helpers shared by every muxide specification module.       *)
(* A byte string is a sequence of integers 0..255.                          *)
EXTENDS Integers, Sequences, FiniteSets, SequencesExt

Byte == 0..255

IsBytes(d) == \A i \in 1..Len(d) : d[i] \in Byte

MinOf(S) == CHOOSE x \in S : \A y \in S : x <= y
MaxOf(S) == CHOOSE x \in S : \A y \in S : x >= y

Abs(x) == IF x < 0 THEN -x ELSE x

(* Big-endian encodings of a non-negative integer that fits the width.      *)
BE16(n) == << (n \div 256) % 256, n % 256 >>
BE32(n) == << (n \div 16777216) % 256, (n \div 65536) % 256, (n \div 256) % 256, n % 256 >>

(* Decoding (values up to 2^31-1 only: TLC integers are 32-bit).            *)
U16(d, p) == d[p] * 256 + d[p+1]
U32(d, p) == ((d[p] * 256 + d[p+1]) * 256 + d[p+2]) * 256 + d[p+3]
FitsU32(d, p) == d[p] < 128

(* total: positions outside the sequence are cut off (monitors must be able to describe what a  *)
(* deviating implementation did, e.g. accept a frame whose declared length exceeds the buffer) *)
Slice(d, from, to) == LET f == IF from < 1 THEN 1 ELSE from
                          t == IF to > Len(d) THEN Len(d) ELSE to
                      IN IF f > t THEN << >> ELSE SubSeq(d, f, t)

RECURSIVE Concat(_)
Concat(ss) == IF ss = << >> THEN << >> ELSE Head(ss) \o Concat(Tail(ss))

(* Values read from files are clamped by the reader to BIG = 10^9 (TLC integers are 32-bit); sums and products *)
(* of such values saturate there, so that the monitors can evaluate whatever an implementation wrote.        *)
BIG == 1000000000
Sat(x) == IF x > BIG THEN BIG ELSE IF x < -BIG THEN -BIG ELSE x
MulSat(x, k) == IF x > BIG \div k THEN BIG ELSE IF x < -(BIG \div k) THEN -BIG ELSE x * k
(* Sum of f[i] for i in 1..n, iteratively folded (f is a sequence/function) *)
RECURSIVE SumTo(_, _)
SumTo(f, n) == IF n = 0 THEN 0 ELSE Sat(f[n] + SumTo(f, n - 1))
SumSeq(s) == FoldLeft(LAMBDA acc, x : Sat(acc + x), 0, s)     \* SequencesExt (Java override): linear, no recursion

(* Bits of a byte string, most significant bit first, as a sequence of 0/1. *)
BitAt(d, i) == LET b == d[((i - 1) \div 8) + 1]
                   k == 7 - ((i - 1) % 8)
               IN  (b \div (2 ^ k)) % 2
NBits(d) == 8 * Len(d)

(* Value of w bits starting at bit position p (1-based); w <= 30.           *)
RECURSIVE BitsVal(_, _, _)
BitsVal(d, p, w) == IF w = 0 THEN 0 ELSE 2 * BitsVal(d, p, w - 1) + BitAt(d, p + w - 1)

=============================================================================
