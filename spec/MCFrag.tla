------------------------------- MODULE MCFrag -------------------------------
(* Bounded exhaustive exploration of Frag.tla: every sequence of writes        *)
(* (dts step, composition offset, size and sync flag by position), flushes,    *)
(* readiness queries and init-segment requests up to MaxCalls.  The segment is *)
(* built operationally (two-pass moof, data offset, per-sample trun entries,   *)
(* base decode time) and the declarative predicates C10Seg / C11Seg of         *)
(* Frag.tla must hold on it.  Complete behaviours are printed as REPLAY lines. *)
EXTENDS Frag, Json

CONSTANTS MaxCalls, Steps, Ctss, FDev, VC, Start0

VARIABLES hist, lastSeg, done
mvars == << fcfg, pending, lastDts, seqno, emitted, accepted, flushedN, cadence, initSeen, hist, lastSeg, done >>

StepsA == {-1, 0, 1, 3}
StepsB == {-1, 0, 1, 3000, 3001}
StepsC == {3000}
CtsA == {0, 2}
CtsB == {0, 2, -1}

Cfg0 == [vc |-> VC, w |-> 640, h |-> 480, timescale |-> 90000, fragms |-> 100, via |-> "config", unit |-> 1, unit1 |-> TRUE, judge_config |-> FALSE, w32 |-> 1073741824, i32 |-> 1073741824,
         facets |-> [bytes |-> TRUE, timing |-> TRUE, tree |-> TRUE, raw |-> FALSE]]

Pad(n) == [i \in 1..n |-> 16 + i]
SizeAt(k) == << 3, 0, 1, 5, 2, 4, 7, 6, 9 >>[((k - 1) % 9) + 1]

Init == FInitState(Cfg0) /\ hist = << >> /\ lastSeg = << >> /\ done = FALSE

(* operational model of build_media_segment *)
MoofLen(n) == 100 + 16 * n
ModelSeg ==
    LET q == pending  n == Len(q)
        base == IF "TfdtFromAverage" \in FDev
                THEN (IF emitted = << >> THEN 0
                      ELSE LET p == emitted[Len(emitted)] IN
                           p.last + (IF p.n >= 2 THEN (p.last - p.first) \div (p.n - 1) ELSE 3000))
                ELSE q[1].dts
        dur(i) == IF i < n THEN q[i+1].dts - q[i].dts ELSE IF n >= 2 THEN q[i].dts - q[i-1].dts ELSE 3000
        off(i) == MoofLen(n) + 8 + SumSeq([j \in 1..(i-1) |-> Len(q[j].data)])
    IN [seq |-> seqno, trunn |-> n, parsed |-> TRUE, tfhdflags |-> 131072, tfdt |-> base, tfdtr |-> 0,
        mdat |-> << [off |-> MoofLen(n), po |-> MoofLen(n) + 8, pl |-> SumSeq([j \in 1..n |-> Len(q[j].data)])] >>,
        s |-> [i \in 1..n |-> [z |-> Len(q[i].data), b |-> q[i].data, o |-> off(i), d |-> dur(i),
                               c |-> q[i].pts - q[i].dts, nonsync |-> ~q[i].sync]]]

NextWrites ==
    { [op |-> "fw", dts |-> d, pts |-> d + c, data |-> Pad(SizeAt(accepted + Len(hist) + 1)), sync |-> (accepted % 3 = 0)] :
        d \in { x \in { (IF lastDts = None THEN Start0 ELSE lastDts + s) : s \in Steps } : x >= 0 },
        c \in { y \in Ctss : TRUE } }

Call(c) ==
    /\ hist' = Append(hist, c)
    /\ IF c.op = "fw" THEN
            /\ c.pts >= 0
            /\ DoFWrite(c.pts, c.dts, c.data, c.sync, WriteMustSucceed(c.dts)) /\ lastSeg' = lastSeg
       ELSE IF c.op = "ff" THEN
            IF pending = << >> THEN DoFFlush(FALSE, 0, 0) /\ lastSeg' = lastSeg
            ELSE LET S == ModelSeg IN
                 /\ DoFFlush(TRUE, S.tfdt, SumSeq([i \in 1..Len(S.s) |-> S.s[i].d]))
                 /\ lastSeg' = << [seg |-> S, q |-> pending, seqWas |-> seqno, emittedWas |-> emitted, cadenceWas |-> cadence] >>
       ELSE IF c.op = "fi" THEN DoFInit /\ lastSeg' = lastSeg
       ELSE DoFQuery /\ lastSeg' = lastSeg

Close == /\ ~done /\ done' = TRUE
         /\ UNCHANGED << fcfg, pending, lastDts, seqno, emitted, accepted, flushedN, cadence, initSeen, hist, lastSeg >>
         /\ PrintT("REPLAY|" \o ToJson([kind |-> "frag", cfg |-> fcfg, calls |-> hist]))

Next == \/ /\ ~done /\ Len(hist) < MaxCalls /\ done' = FALSE
           /\ \E c \in NextWrites \cup { [op |-> "ff"], [op |-> "fr"], [op |-> "fd"], [op |-> "fi"] } : Call(c)
        \/ (hist # << >> /\ Close)

Spec == Init /\ [][Next]_mvars

(* ---- design invariants ---- *)
Conservation == flushedN + Len(pending) = accepted
SeqNumbersOK == seqno = Len(emitted) + 1
(* the predicates of Frag.tla, evaluated in the state in which the segment was built *)
SegOK == lastSeg = << >> \/
    LET r == lastSeg[1] IN
      /\ r.seg.seq = r.seqWas
      /\ LET n == Len(r.q) IN
           /\ r.seg.trunn = n
           /\ \A i \in 1..n : r.seg.s[i].b = r.q[i].data /\ r.seg.s[i].z = Len(r.q[i].data)
                               /\ r.seg.s[i].c = r.q[i].pts - r.q[i].dts /\ r.seg.s[i].nonsync = ~r.q[i].sync
                               /\ (ExpDurF(r.q, i) # None => r.seg.s[i].d = ExpDurF(r.q, i))
           /\ r.seg.s[1].o = r.seg.mdat[1].po
      /\ (r.emittedWas # << >> =>
             LET p == r.emittedWas[Len(r.emittedWas)] IN
             /\ r.seg.tfdt >= p.base                      \* BaseMonotone
             /\ r.seg.tfdt >= p.last)                     \* BaseCoversPrevious
      /\ ((r.cadenceWas >= 0 /\ r.emittedWas # << >> /\ Len(r.q) >= 2 /\ \A k \in 1..Len(r.emittedWas) : r.emittedWas[k].n >= 2)
            => r.seg.tfdt - r.q[1].dts = r.emittedWas[1].base - r.emittedWas[1].first)   \* ConstantCadence
RejectQueuesNothing == [][ (hist' # hist /\ hist'[Len(hist')].op = "fw" /\ ~WriteMustSucceed(hist'[Len(hist')].dts))
                            => UNCHANGED << pending, lastDts, accepted, seqno, emitted >> ]_mvars
EmptyFlushOK == [][ (hist' # hist /\ hist'[Len(hist')].op = "ff" /\ pending = << >>) => UNCHANGED << seqno, emitted, pending >> ]_mvars
=============================================================================
