------------------------------ MODULE TraceCli ------------------------------
(***************************************************************************)
(* Decision table of the `muxide` command-line tool (src/bin/muxide.rs)     *)
(* and the monitors that judge recorded runs of the built binary.           *)
(* Property C20.                                                            *)
(*                                                                          *)
(* An event carries the option record the harness used to build the         *)
(* command line (names as given, numeric values, the bytes of the input     *)
(* files and how they were encoded on disk) and the observed facts: exit    *)
(* class, whether completion was reported, the counts printed, whether the  *)
(* output file equals the bytes the library produced in-process for the     *)
(* same settings.  What *should* happen is computed here.                   *)
(***************************************************************************)
EXTENDS Bytes, AnnexB, Adts, OpusPkt, Av1Seq, Vp9Hdr, Json, IOUtils, TLC

Rec == ndJsonDeserialize(IOEnv.TRACE)
VARIABLE l
CSig(q, site, cls) == << "C20", q, site, cls >>
SigLine(i, n, s) == PrintT("SIG|" \o ToString(i) \o "|" \o ToString(n) \o "|" \o ToString(s))
Has(r, f) == f \in DOMAIN r

(* ---- option semantics ---- *)
VCodecOf(name) ==       \* FromStr of VideoCodec, case-insensitive names are lower-cased by the harness for this table
    IF name \in {"", "h264", "h.264", "avc"} THEN "h264"
    ELSE IF name \in {"h265", "h.265", "hevc"} THEN "h265"
    ELSE IF name = "av1" THEN "av1" ELSE IF name = "vp9" THEN "vp9" ELSE "invalid"
ACodecOf(name) ==
    IF name \in {"", "aac", "aac-lc", "aac-main", "aac-ssr", "aac-ltp", "aac-he", "aac-hev2"} THEN "aac"
    ELSE IF name = "opus" THEN "opus" ELSE IF name = "none" THEN "none" ELSE "invalid"

(* input file classes: how the bytes were put on disk *)
(* "text": the file content is given literally in f.text; it is hexadecimal text when, blanks (space, *)
(* tab, CR, LF) removed, it is non-empty, of even length and made of hexadecimal digits only.       *)
HexDigitVal(c) == IF c >= 48 /\ c <= 57 THEN c - 48 ELSE IF c >= 97 /\ c <= 102 THEN c - 87 ELSE IF c >= 65 /\ c <= 70 THEN c - 55 ELSE -1
NoBlanks(t) == SelectSeq(t, LAMBDA c : c \notin {9, 10, 13, 32})
HexText(t) == LET s == NoBlanks(t) IN s # << >> /\ Len(s) % 2 = 0 /\ \A i \in 1..Len(s) : HexDigitVal(s[i]) >= 0
HexDecode(t) == LET s == NoBlanks(t) IN [i \in 1..(Len(s) \div 2) |-> 16 * HexDigitVal(s[2 * i - 1]) + HexDigitVal(s[2 * i])]
FileUsable(f) == f.enc = "hex" \/ (f.enc = "text" /\ HexText(f.text) /\ HexDecode(f.text) = f.data)
FileIllFormed(f) == f.enc = "text" /\ HexText(f.text) /\ HexDecode(f.text) # f.data      \* generator error: reported, never judged
FileGiven(f) == f.enc # "absent"

HasConfigC(vc, d) ==
    IF d = << >> THEN FALSE
    ELSE IF vc = "h264" THEN H264HasConfig(d) ELSE IF vc = "h265" THEN H265HasConfig(d)
    ELSE IF vc = "av1" THEN Av1HasConfig(d) ELSE Vp9HasConfig(d)
AudioOkC(ac, d) == IF ac = "aac" THEN ValidAdts(d) /\ ~AdtsHeaderOnly(d) ELSE IF ac = "opus" THEN ValidOpus(d) ELSE FALSE

(* every mux option valid and every given input a usable, acceptable frame *)
MuxValid(o) ==
    /\ FileGiven(o.video)                                   \* the library requires a video track
    /\ VCodecOf(o.vcodec) # "invalid"
    /\ o.has_w /\ o.has_h /\ o.has_fps
    /\ o.w >= 320 /\ o.w <= 4096 /\ o.h >= 240 /\ o.h <= 2160
    /\ o.fps_milli >= 1 /\ o.fps_milli <= 120000        \* fps in (0, 120], given in thousandths
    /\ FileUsable(o.video) /\ HasConfigC(VCodecOf(o.vcodec), o.video.data)
    /\ (FileGiven(o.audio) =>
          /\ ACodecOf(o.acodec) \in {"aac", "opus"}
          /\ o.has_rate /\ o.has_ch /\ o.rate >= 1 /\ o.rate <= 192000 /\ o.ch >= 1 /\ o.ch <= 8
          /\ FileUsable(o.audio) /\ AudioOkC(ACodecOf(o.acodec), o.audio.data))
    /\ ACodecOf(o.acodec) # "invalid"
    /\ ~o.fragmented

(* Cases the statement leaves open ("valid combination" / "invalid parameter" is arguable): not judged *)
MuxUnclear(o) ==
    \/ FileIllFormed(o.video) \/ FileIllFormed(o.audio)
    \/ o.dry_run                                             \* a dry run checks existence only
    \/ (~FileGiven(o.audio) /\ (o.has_rate \/ o.has_ch) /\ ~(o.has_rate /\ o.has_ch))   \* stray audio parameters without audio input
    \/ (FileGiven(o.audio) /\ FileGiven(o.video) /\ ACodecOf(o.acodec) = "aac" /\ FileUsable(o.audio) /\ AdtsHeaderOnly(o.audio.data))

MuxSigs(e) ==
    LET o == e.opts IN
    IF MuxUnclear(o) THEN
         (IF e.exit # "ok" /\ e.completion THEN {CSig("NoCompletionOnFailure", "mux", "completion-reported")} ELSE {})
    ELSE IF MuxValid(o) THEN
         (IF e.exit # "ok" THEN {CSig("ExitClass", "mux", ToString(<< "valid-options-failed", e.exit >>))} ELSE {})
    \cup (IF e.exit = "ok" /\ ~e.completion THEN {CSig("ExitClass", "mux", "no-completion-report")} ELSE {})
    \cup (IF e.exit = "ok" /\ (~e.out_exists \/ ~e.lib_ok \/ ~e.same_as_lib)
          THEN {CSig("SameFileAsLibrary", "mux", IF ~e.out_exists THEN "no-output" ELSE IF ~e.lib_ok THEN "library-rejects" ELSE e.first_diff)} ELSE {})
    \cup (IF e.exit = "ok" /\ e.lib_ok /\ (e.rep_v # e.lib_v \/ e.rep_a # e.lib_a)
          THEN {CSig("CountsMatch", "mux", IF e.rep_v # e.lib_v THEN "video" ELSE "audio")} ELSE {})
    ELSE (IF e.exit = "ok" THEN {CSig("ExitClass", "mux", "invalid-options-succeeded")} ELSE {})
    \cup (IF e.completion THEN {CSig("NoCompletionOnFailure", "mux", "completion-reported")} ELSE {})
    \cup (IF e.exit = "timeout" THEN {CSig("Terminates", "mux", "timeout")} ELSE {})

(* validate: 'valid' exactly when every given input exists and is non-empty even-length hex text *)
InputValid(f) == (f.enc = "hex" /\ f.data # << >>) \/ (f.enc = "text" /\ HexText(f.text))
ValidateSigs(e) ==
    LET o == e.opts
        any == FileGiven(o.video) \/ FileGiven(o.audio)
        want == (FileGiven(o.video) => InputValid(o.video)) /\ (FileGiven(o.audio) => InputValid(o.audio))
    IN   (IF e.exit = "timeout" THEN {CSig("Terminates", "validate", "timeout")} ELSE {})
    \cup (IF any /\ e.exit # "timeout" /\ (~e.verdict_seen \/ e.verdict # want)
          THEN {CSig("ValidateVerdict", "validate", IF ~e.verdict_seen THEN "no-verdict" ELSE IF e.verdict THEN "valid-for-bad-input" ELSE "invalid-for-good-input")} ELSE {})

(* info: terminates on anything; for a well-formed MP4 it lists precisely the top-level boxes *)
InfoSigs(e) ==
         (IF e.exit = "timeout" THEN {CSig("Terminates", "info", "timeout")} ELSE {})
    \cup (IF e.wellformed /\ e.exit # "ok" THEN {CSig("InfoBoxes", "info", "failed-on-well-formed-file")} ELSE {})
    \cup (IF e.wellformed /\ e.exit = "ok" /\ e.listed # e.top THEN {CSig("InfoBoxes", "info", "list-differs")} ELSE {})

TInit == l = 1
TNext == /\ l <= Len(Rec) /\ l' = l + 1
         /\ LET e == Rec[l] IN
            \A s \in (IF e.ev # "cli" THEN {}
                      ELSE (IF e.crashed THEN {<< "C12", "Total", "cli", "harness-side-panic" >>} ELSE {})
                           \cup (IF e.cmd = "mux" THEN MuxSigs(e) ELSE IF e.cmd = "validate" THEN ValidateSigs(e) ELSE InfoSigs(e))) :
               SigLine(e.i, l, s)
TSpec == TInit /\ [][TNext]_l
Consumed == IF TLCGet("stats").diameter = Len(Rec) + 1 THEN PrintT("CONSUMED|" \o ToString(Len(Rec)))
            ELSE PrintT("STUCK|" \o ToString(TLCGet("stats").diameter) \o "|" \o ToString(Len(Rec))) /\ FALSE
=============================================================================
