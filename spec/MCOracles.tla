------------------------------ MODULE MCOracles ------------------------------
(* Self-consistency of the small bitstream oracles that the monitors rely on  *)
(* (the Annex B one has its own module, MCAnnexB; AV1: MCAv1Seq; dates:       *)
(* MCMeta).  One counter walks a finite case table; each invariant is         *)
(* evaluated in every state, i.e. for every case.                             *)
(*                                                                            *)
(*  ADTS: a frame built by MkAdts for (sampling index, channel configuration, *)
(*        payload length) is structurally valid, its header fields decode to  *)
(*        what was encoded - in particular the 13-bit frame length across the *)
(*        2^8 / 2^11 / 2^12 carries - and AdtsPayload returns the payload;    *)
(*        every single-field damage is named by exactly the expected defect.  *)
(*  Opus: FrameCount / ValidOpus / PacketSamples agree with RFC 6716 3.1-3.2  *)
(*        on every TOC byte x frame-count byte.                               *)
(*  VP9:  Vp9Fields o MkVp9Key = identity on (profile, colour byte, range     *)
(*        byte) for every var-uint length of width and height.                *)
EXTENDS Adts, OpusPkt, Vp9Hdr, TLC

VARIABLE k
AdtsLens == (0..40) \cup {120, 121, 248, 249, 250, 2040, 2041, 2042, 4088, 4089, 4090, 8183, 8184}
AdtsCases == { << s, c, n >> : s \in {0, 3, 4, 11, 12}, c \in 1..7, n \in AdtsLens }
AdtsSeq == SetToSeq(AdtsCases)
OpusCases == { << t, c >> : t \in 0..255, c \in {0, 1, 2, 63, 64, 65, 127, 128, 129, 191, 192, 255} }
OpusSeq == SetToSeq(OpusCases)
Vp9Cases == { << p, wl, hl, col, rg >> : p \in 0..3, wl \in 1..5, hl \in 1..5, col \in {0, 1, 2, 3, 16, 18, 35, 128, 131, 243}, rg \in {0, 1, 254, 255} }
Vp9Seq == SetToSeq(Vp9Cases)
N == Len(AdtsSeq) + Len(OpusSeq) + Len(Vp9Seq)

Init == k = 1
Next == k < N /\ k' = k + 1
Spec == Init /\ [][Next]_k

PadN(n) == [i \in 1..n |-> (i * 7) % 251]

AdtsOK ==
    k <= Len(AdtsSeq) =>
    LET c == AdtsSeq[k]  pl == PadN(c[3])  d == MkAdts(c[1], c[2], pl) IN
    /\ ValidAdts(d)
    /\ SfIndex(d) = c[1] /\ ChanCfg(d) = c[2] /\ FrameLen(d) = 7 + c[3] /\ HdrLen(d) = 7
    /\ AdtsPayload(d) = pl
    /\ AdtsHeaderOnly(d) = (c[3] = 0)
    \* trailing bytes after the declared frame are not part of the sample
    /\ AdtsPayload(d \o << 1, 2, 3 >>) = pl
    \* single-field damage is named
    /\ AdtsDefects([d EXCEPT ![1] = 254]) = {"MissingSyncword"}
    /\ AdtsDefects([d EXCEPT ![2] = 249]) = {"InvalidMpegVersion"}
    /\ AdtsDefects([d EXCEPT ![2] = 243]) = {"InvalidLayer"}
    /\ "InvalidSampleRateIndex" \in AdtsDefects([d EXCEPT ![3] = 64 + 13 * 4 + c[2] \div 4])
    /\ (c[3] > 0 => AdtsDefects(SubSeq(d, 1, Len(d) - 1)) = {"InvalidFrameLength"})
    /\ AdtsDefects(SubSeq(d, 1, 6)) = {"FrameTooShort"}

\* RFC 6716: code 0 = 1 frame, codes 1 and 2 = 2 frames, code 3 = count byte (low 6 bits, 0 is invalid)
OpusOK ==
    (k > Len(AdtsSeq) /\ k <= Len(AdtsSeq) + Len(OpusSeq)) =>
    LET c == OpusSeq[k - Len(AdtsSeq)]  toc == c[1]  cnt == c[2]
        one == << toc >>  two == << toc, cnt >>  code == toc % 4
        per == FrameSamples(toc \div 8)
    IN
    /\ per \in {120, 240, 480, 960, 1920, 2880}
    /\ ~ValidOpus(<< >>)
    /\ (code = 0 => ValidOpus(one) /\ PacketSamples(one) = per /\ PacketSamples(two) = per)
    /\ (code \in {1, 2} => ValidOpus(one) /\ PacketSamples(one) = 2 * per /\ PacketSamples(two) = 2 * per)
    /\ (code = 3 => ~ValidOpus(one) /\ (ValidOpus(two) <=> cnt % 64 # 0)
                    /\ (ValidOpus(two) => PacketSamples(two) = (cnt % 64) * per))

Vp9OK ==
    k > Len(AdtsSeq) + Len(OpusSeq) =>
    LET c == Vp9Seq[k - Len(AdtsSeq) - Len(OpusSeq)]
        d == MkVp9Key(c[1], c[2], c[3], c[4], c[5], << 9, 9 >>)
        f == Vp9Fields(d)
        explicit == (c[4] \div 4) % 4 # 0      \* the constructor's colour byte would select the render-size form
    IN
    /\ Vp9IsKey(d) /\ Vp9Profile(d) = c[1]
    /\ (~explicit => /\ Vp9HasConfig(d)
                     /\ f.profile = c[1] /\ f.depth = (IF c[4] % 2 = 1 THEN 10 ELSE 8)
                     /\ f.cs = (c[4] \div 2) % 8 /\ f.tf = (c[4] \div 16) % 8 /\ f.mc = c[4] \div 128
                     /\ f.fr = (IF f.cs # 0 THEN c[5] % 2 ELSE 0))
    /\ ~Vp9IsKey(MkVp9Delta(<< 1 >>))
    /\ ~Vp9HasConfig(SubSeq(d, 1, 5))
=============================================================================
