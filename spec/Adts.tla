-------------------------------- MODULE Adts --------------------------------
(* ADTS framing of AAC (ISO/IEC 13818-7 / 14496-3): header fields, the         *)
(* structural acceptance condition named by muxide's public AdtsErrorKind, and *)
(* the payload slice that is stored as the MP4 sample.  Properties C14, C04.   *)
EXTENDS Bytes

Sync(d)     == d[1] * 16 + d[2] \div 16
MpegId(d)   == (d[2] \div 8) % 2
Layer(d)    == (d[2] \div 2) % 4
ProtAbsent(d) == d[2] % 2
SfIndex(d)  == (d[3] \div 4) % 16
ChanCfg(d)  == (d[3] % 2) * 4 + d[4] \div 64
FrameLen(d) == (d[4] % 4) * 2048 + d[5] * 8 + d[6] \div 32
HdrLen(d)   == IF ProtAbsent(d) = 1 THEN 7 ELSE 9

(* The set of reasons for which a byte string is not an acceptable ADTS frame. *)
(* Empty set = structurally valid.                                             *)
AdtsDefects(d) ==
    IF Len(d) < 7 THEN {"FrameTooShort"}
    ELSE   (IF Sync(d) # 4095 THEN {"MissingSyncword"} ELSE {})
      \cup (IF MpegId(d) # 0 THEN {"InvalidMpegVersion"} ELSE {})
      \cup (IF Layer(d) # 0 THEN {"InvalidLayer"} ELSE {})
      \cup (IF Len(d) < HdrLen(d) THEN {"InvalidHeaderLength"} ELSE {})
      \cup (IF SfIndex(d) > 12 THEN {"InvalidSampleRateIndex"} ELSE {})
      \cup (IF ChanCfg(d) = 0 THEN {"InvalidChannelConfig"} ELSE {})
      \cup (IF FrameLen(d) < HdrLen(d) \/ FrameLen(d) > Len(d) THEN {"InvalidFrameLength"} ELSE {})

ValidAdts(d) == AdtsDefects(d) = {}

(* The stored sample: bytes between the header and the declared frame length.  *)
AdtsPayload(d) == Slice(d, HdrLen(d) + 1, FrameLen(d))

(* A structurally valid frame whose payload is empty: the contract is silent.  *)
AdtsHeaderOnly(d) == ValidAdts(d) /\ FrameLen(d) = HdrLen(d)

(* Constructor used by the bounded models: header for a payload, no CRC.       *)
MkAdts(sfi, chan, payload) ==
    LET fl == 7 + Len(payload) IN
    << 255, 241, 64 + sfi * 4 + chan \div 4, (chan % 4) * 64 + fl \div 2048,
       (fl \div 8) % 256, (fl % 8) * 32 + 31, 252 >> \o payload

=============================================================================
