------------------------------- MODULE SinkInd -------------------------------
(* Counter abstraction of MuxideSink.tla (file length, position, bytes of the     *)
(* current buffer still to be offered, number of delivered bytes, status, result)  *)
(* with an inductive invariant for the sink clauses of C13, for files of ANY       *)
(* length, buffers of ANY size and ANY number of Interrupted responses.            *)
(* Accept appends the bytes pos+1 .. pos+k of the file to what the sink holds, so  *)
(* "dlen = pos" says that the sink holds exactly the prefix of length pos.         *)
(* Discharged with Apalache:                                                       *)
(*   apalache-mc check --init=Init    --inv=IndInv --length=0 SinkInd.tla          *)
(*   apalache-mc check --init=IndInit --inv=IndInv --length=1 SinkInd.tla          *)
(*   apalache-mc check --init=IndInit --inv=Silent --length=1 SinkInd.tla          *)
EXTENDS Integers

VARIABLES
    \* @type: Int;
    flen,
    \* @type: Int;
    pos,
    \* @type: Int;
    buf,
    \* @type: Int;
    dlen,
    \* @type: Str;
    st,
    \* @type: Str;
    result,
    \* @type: Bool;
    faulted

Init == flen \in Nat /\ pos = 0 /\ buf = 0 /\ dlen = 0 /\ st = "run" /\ result = "none" /\ faulted = FALSE

NextBuffer == /\ st = "run" /\ buf = 0 /\ pos < flen
              /\ \E n \in Nat : n >= 1 /\ n <= flen - pos /\ buf' = n
              /\ UNCHANGED << flen, pos, dlen, st, result, faulted >>
\* the sink accepts k of the offered bytes (write_all keeps offering the rest)
Accept == /\ st = "run" /\ buf > 0
          /\ \E k \in Nat : k >= 1 /\ k <= buf /\ dlen' = dlen + k /\ pos' = pos + k /\ buf' = buf - k
          /\ UNCHANGED << flen, st, result, faulted >>
Intr == st = "run" /\ buf > 0 /\ UNCHANGED << flen, pos, buf, dlen, st, result, faulted >>
ZeroOrFail == /\ st = "run" /\ buf > 0 /\ faulted' = TRUE /\ st' = "failed" /\ result' = "err"
              /\ UNCHANGED << flen, pos, buf, dlen >>
Complete == /\ st = "run" /\ buf = 0 /\ pos = flen /\ st' = "done" /\ result' = "ok"
            /\ UNCHANGED << flen, pos, buf, dlen, faulted >>
\* any later API call on a finished or failed muxer writes nothing
Later == st # "run" /\ UNCHANGED << flen, pos, buf, dlen, st, result, faulted >>

Next == NextBuffer \/ Accept \/ Intr \/ ZeroOrFail \/ Complete \/ Later

IndInv == /\ flen >= 0 /\ pos >= 0 /\ pos <= flen /\ buf >= 0 /\ buf <= flen - pos
          /\ dlen = pos                                              \* PrefixAlways: the sink holds exactly F[1..pos]
          /\ st \in {"run", "done", "failed"} /\ result \in {"none", "ok", "err"}
          /\ (st = "run" <=> result = "none")
          /\ (result = "err" <=> faulted) /\ (st = "failed" <=> faulted)   \* ErrIffFailed
          /\ (result = "ok" <=> st = "done")
          /\ (st = "done" => pos = flen /\ buf = 0 /\ dlen = flen)         \* ShortWritesHarmless

IndInit == /\ flen \in Int /\ pos \in Int /\ buf \in Int /\ dlen \in Int
           /\ st \in {"run", "done", "failed"} /\ result \in {"none", "ok", "err"} /\ faulted \in BOOLEAN
           /\ IndInv

\* SilentAfterFailure (action invariant): once a write has failed nothing more reaches the sink
Silent == faulted => dlen' = dlen
=============================================================================
