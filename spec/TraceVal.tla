------------------------------- MODULE TraceVal -------------------------------
(***************************************************************************)
(* Decision tables of muxide::validation (the dry-run validators) and of    *)
(* the FromStr / Display surfaces of VideoCodec / AudioCodec, and the       *)
(* monitors that judge recorded tables.  Beyond the listed properties       *)
(* (specification growth); a panic is reported under C12.                   *)
(***************************************************************************)
EXTENDS Bytes, AnnexB, Av1Seq, Vp9Hdr, OpusPkt, Json, IOUtils, TLC

Rec == ndJsonDeserialize(IOEnv.TRACE)
VARIABLE l
VSig(q, site, cls) == << "X01", q, site, cls >>        \* X01: not one of the listed properties
SigLine(i, n, s) == PrintT("SIG|" \o ToString(i) \o "|" \o ToString(n) \o "|" \o ToString(s))

VideoConfigValid(w, h, fm) == w >= 320 /\ w <= 4096 /\ h >= 240 /\ h <= 2160 /\ fm >= 1 /\ fm <= 120000
AudioConfigValid(ac, rate, ch) == ac = "none" \/ (rate >= 1 /\ rate <= 192000 /\ ch >= 1 /\ ch <= 8)

(* key-frame detection used by validate_video_frame *)
H265Irap(d) == \E i \in 1..Len(Nals(d)) : H265Type(Nals(d)[i]) \in 16..21
(* AV1: a FRAME (6) or FRAME_HEADER (3) OBU whose first payload bit (show_existing_frame) is 0 and whose next two bits (frame_type) are 0 *)
RECURSIVE Av1KeyFrom(_, _)
Av1KeyFrom(d, p) ==
    IF p > Len(d) THEN FALSE
    ELSE LET o == ObuAt(d, p) IN
         IF ~o.ok THEN FALSE
         ELSE IF o.type \in {3, 6} /\ o.total > o.hdr /\ d[p + o.hdr] \div 32 = 0 THEN TRUE
         ELSE IF o.total = 0 THEN FALSE ELSE Av1KeyFrom(d, p + o.total)
Detected(vc, d) == IF vc = "h264" THEN H264HasIdr(d) ELSE IF vc = "h265" THEN H265Irap(d)
                   ELSE IF vc = "av1" THEN Av1KeyFrom(d, 1) ELSE Vp9IsKey(d)
VideoFrameValid(vc, d, key) == d # << >> /\ ~(key /\ ~Detected(vc, d))
AudioFrameValid(ac, d) == d # << >> /\ (IF ac = "aac" THEN Len(d) >= 7 /\ d[1] = 255 /\ d[2] \div 16 = 15
                                       ELSE IF ac = "opus" THEN ValidOpus(d) ELSE FALSE)

VCodecNames == {"h264", "h.264", "avc", "h265", "h.265", "hevc", "av1", "vp9"}
ACodecNames == {"aac", "aac-lc", "aac-main", "aac-ssr", "aac-ltp", "aac-he", "aac-hev2", "opus", "none"}

Sigs(e) ==
    IF "panic" \in DOMAIN e /\ e.panic THEN {<< "C12", "Total", "validation::" \o e.f, "panic" >>}
    ELSE IF e.f = "video_config" THEN
        (IF e.valid # VideoConfigValid(e.w, e.h, e.fps_milli) THEN {VSig("ValidationVerdict", "validate_video_config", IF e.valid THEN "accepts-invalid" ELSE "rejects-valid")} ELSE {})
    ELSE IF e.f = "audio_config" THEN
        (IF e.valid # AudioConfigValid(e.ac, e.rate, e.ch) THEN {VSig("ValidationVerdict", "validate_audio_config", IF e.valid THEN "accepts-invalid" ELSE "rejects-valid")} ELSE {})
    ELSE IF e.f = "video_frame" THEN
        (IF e.valid # VideoFrameValid(e.vc, e.data, e.key) THEN {VSig("ValidationVerdict", "validate_video_frame", ToString(<< e.vc, IF e.valid THEN "accepts-invalid" ELSE "rejects-valid" >>))} ELSE {})
    ELSE IF e.f = "audio_frame" THEN
        (IF e.valid # AudioFrameValid(e.ac, e.data) THEN {VSig("ValidationVerdict", "validate_audio_frame", ToString(<< e.ac, IF e.valid THEN "accepts-invalid" ELSE "rejects-valid" >>))} ELSE {})
    ELSE IF e.f = "muxing_config" THEN
        \* composition rule of validate_muxing_config (src/validation.rs): a stream is judged when it is completely
        \* specified (then its sample frame, if given, is judged too); a codec without its parameters is an error
        \* (audio codec "none" counts as no codec); at least one stream must be configured
        LET vcomplete == e.vc_some /\ e.w_some /\ e.h_some /\ e.fps_some
            realaudio == e.ac \in {"aac", "opus"}
            acomplete == e.ac # "absent" /\ e.rate_some /\ e.ch_some
            want == /\ (vcomplete => e.v_ok /\ (e.vf_given => e.vf_ok))
                    /\ ~(e.vc_some /\ ~vcomplete)
                    /\ (acomplete => e.a_ok /\ (e.af_given => e.af_ok))
                    /\ ~(realaudio /\ ~acomplete)
                    /\ (e.vc_some \/ realaudio)
        IN (IF e.valid # want THEN {VSig("ValidationVerdict", "validate_muxing_config", IF e.valid THEN "accepts-invalid" ELSE "rejects-valid")} ELSE {})
           \cup (IF e.valid # (e.nerr = 0) THEN {VSig("ValidationVerdict", "validate_muxing_config", "verdict-disagrees-with-error-list")} ELSE {})
    ELSE IF e.f = "defaults" THEN
        \* documented defaults: 1920x1080, 90 kHz media timescale, 2-second fragments; Opus is always 48 kHz
        (IF e.frag_timescale # 90000 \/ e.frag_duration_ms # 2000 \/ e.frag_w # 1920 \/ e.frag_h # 1080 THEN {VSig("Defaults", "FragmentConfig", "value")} ELSE {})
        \cup (IF e.opus_rate # 48000 THEN {VSig("Defaults", "OPUS_SAMPLE_RATE", "value")} ELSE {})
        \cup (IF e.frag_sps = << >> \/ e.frag_sps[1] % 32 # 7 \/ e.frag_pps = << >> \/ e.frag_pps[1] % 32 # 8 THEN {VSig("Defaults", "FragmentConfig", "parameter-set-nal-type")} ELSE {})
    ELSE IF e.f = "constants" THEN
        \* ITU-T H.264 Table 7-1, H.265 Table 7-1, AV1 section 6.2.2; the default parameter sets are NAL units of the right type
        (IF e.h264 # << 1, 5, 7, 8 >> THEN {VSig("Constants", "h264::nal_type", "value")} ELSE {})
        \cup (IF e.h265 # << 16, 17, 18, 19, 20, 21, 32, 33, 34, 35, 36, 37, 38, 39, 40 >> THEN {VSig("Constants", "h265::nal_type", "value")} ELSE {})
        \cup (IF e.obu # << 1, 2, 3, 4, 5, 6, 7, 8, 15 >> THEN {VSig("Constants", "av1::obu_type", "value")} ELSE {})
        \cup (IF e.default_sps = << >> \/ e.default_sps[1] % 32 # 7 \/ e.default_pps = << >> \/ e.default_pps[1] % 32 # 8
              THEN {VSig("Constants", "h264::DEFAULT_SPS/PPS", "nal-type")} ELSE {})
    ELSE IF e.f = "opusconfig" THEN
        (IF e.version # 0 \/ e.channels # 2 \/ e.pre_skip # 312 \/ e.rate # 48000 \/ e.gain # 0 \/ e.family # 0 \/ e.mono # 1 \/ e.stereo # 2 \/ e.preskip_set # 1000
         THEN {VSig("Defaults", "OpusConfig", "value")} ELSE {})
        \cup (IF \E i \in 1..Len(e.with_channels) : LET t == e.with_channels[i] IN t[2] # t[1] \/ t[3] # (IF t[1] > 2 THEN 1 ELSE 0)
              THEN {VSig("Defaults", "OpusConfig::with_channels", "mapping-family")} ELSE {})
    ELSE IF e.f = "vcodec_fromstr" THEN
        (IF e.ok # (e.s \in VCodecNames) THEN {VSig("FromStr", "VideoCodec", IF e.ok THEN "accepts-unknown" ELSE "rejects-known")} ELSE {})
        \cup (IF e.ok /\ ~e.roundtrip THEN {VSig("FromStr", "VideoCodec", "display-does-not-parse-back")} ELSE {})
    ELSE IF e.f = "acodec_fromstr" THEN
        (IF e.ok # (e.s \in ACodecNames) THEN {VSig("FromStr", "AudioCodec", IF e.ok THEN "accepts-unknown" ELSE "rejects-known")} ELSE {})
        \cup (IF e.ok /\ ~e.roundtrip THEN {VSig("FromStr", "AudioCodec", "display-does-not-parse-back")} ELSE {})
    ELSE {}

TInit == l = 1
TNext == l <= Len(Rec) /\ l' = l + 1 /\ \A s \in Sigs(Rec[l]) : SigLine(Rec[l].k, l, s)
TSpec == TInit /\ [][TNext]_l
Consumed == IF TLCGet("stats").diameter = Len(Rec) + 1 THEN PrintT("CONSUMED|" \o ToString(Len(Rec)))
            ELSE PrintT("STUCK|" \o ToString(TLCGet("stats").diameter) \o "|" \o ToString(Len(Rec))) /\ FALSE
=============================================================================
