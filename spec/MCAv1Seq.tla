------------------------------ MODULE MCAv1Seq ------------------------------
(***************************************************************************)
(* Generator for AV1 sequence headers: every branch of the                  *)
(* sequence_header_obu syntax (AV1 spec 5.5), section by section, encoded   *)
(* by EncodeSeqHdr from a record of syntax-element values.  TLC checks      *)
(* that the reader of Av1Seq.tla recovers exactly the values the writer     *)
(* encoded (ParseSeqHdr o EncodeSeqHdr = id on the fields av1C shows, and   *)
(* well-formed trailing bits), and prints each header, wrapped in the OBU   *)
(* framings of the grammar, as a first key frame for the replay harness.    *)
(***************************************************************************)
EXTENDS Av1Seq, Json, TLC

CONSTANTS Sections, Lite

VARIABLES f, done
vars == << f, done >>

(* ---- bit writer ---- *)
BitsOf(v, w) == [i \in 1..w |-> (v \div (2 ^ (w - i))) % 2]
Rep(b, n) == [i \in 1..n |-> b]
PackBits(bits) ==    \* append trailing_bits (a one, then zeros to a byte boundary) and pack
    LET t == bits \o << 1 >>
        padded == t \o Rep(0, (8 - (Len(t) % 8)) % 8)
    IN [k \in 1..(Len(padded) \div 8) |->
          LET o == 8 * (k - 1) IN
          padded[o+1] * 128 + padded[o+2] * 64 + padded[o+3] * 32 + padded[o+4] * 16
          + padded[o+5] * 8 + padded[o+6] * 4 + padded[o+7] * 2 + padded[o+8]]

Bit(b) == IF b THEN << 1 >> ELSE << 0 >>

OpBits(op, dmi, bdl, idd) ==
    BitsOf(op.idc, 12) \o BitsOf(op.level, 5)
    \o (IF op.level > 7 THEN << op.tier >> ELSE << >>)
    \o (IF dmi THEN (IF op.dmp THEN << 1 >> \o [i \in 1..bdl |-> i % 2] \o [i \in 1..bdl |-> (i + 1) % 2] \o << 1 >> ELSE << 0 >>) ELSE << >>)
    \o (IF idd THEN (IF op.iddp THEN << 1 >> \o BitsOf(9, 4) ELSE << 0 >>) ELSE << >>)

ColorBits(x, profile) ==
    LET depth12 == profile = 2 /\ x.hb = 1 /\ x.tb = 1
        srgb == x.cdp = 1 /\ x.cp = 1 /\ x.tc = 13 /\ x.mc = 0
    IN << x.hb >>
       \o (IF profile = 2 /\ x.hb = 1 THEN << x.tb >> ELSE << >>)
       \o (IF profile # 1 THEN << x.mono >> ELSE << >>)
       \o << x.cdp >>
       \o (IF x.cdp = 1 THEN BitsOf(x.cp, 8) \o BitsOf(x.tc, 8) \o BitsOf(x.mc, 8) ELSE << >>)
       \o (IF profile # 1 /\ x.mono = 1 THEN << x.range >>
           ELSE IF srgb THEN << x.sepuv >>
           ELSE << x.range >>
                \o (IF depth12 THEN << x.sx >> \o (IF x.sx = 1 THEN << x.sy >> ELSE << >>) ELSE << >>)
                \o (LET sx == IF profile = 0 THEN 1 ELSE IF profile = 1 THEN 0 ELSE IF depth12 THEN x.sx ELSE 1
                        sy == IF profile = 0 THEN 1 ELSE IF profile = 1 THEN 0 ELSE IF depth12 THEN (IF x.sx = 1 THEN x.sy ELSE 0) ELSE 0
                    IN IF sx = 1 /\ sy = 1 THEN BitsOf(x.csp, 2) ELSE << >>)
                \o << x.sepuv >>)

EncodeBits(h) ==
    BitsOf(h.profile, 3) \o << h.still >> \o << h.reduced >>
    \o (IF h.reduced = 1 THEN BitsOf(h.ops[1].level, 5)
        ELSE Bit(h.timing)
             \o (IF h.timing THEN BitsOf(0, 16) \o BitsOf(1001, 16) \o BitsOf(0, 16) \o BitsOf(30000, 16) \o Bit(h.equalpic)
                                 \o (IF h.equalpic THEN Rep(0, h.lz) \o << 1 >> \o Rep(1, h.lz) ELSE << >>)
                                 \o Bit(h.dmi)
                                 \o (IF h.dmi THEN BitsOf(h.bdl - 1, 5) \o BitsOf(1, 16) \o BitsOf(24464, 16) \o BitsOf(7, 5) \o BitsOf(11, 5) ELSE << >>)
                 ELSE << >>)
             \o Bit(h.idd) \o BitsOf(Len(h.ops) - 1, 5)
             \o OpBits(h.ops[1], h.dmi, h.bdl, h.idd)
             \o (IF Len(h.ops) >= 2 THEN OpBits(h.ops[2], h.dmi, h.bdl, h.idd) ELSE << >>))
    \o BitsOf(h.fwb - 1, 4) \o BitsOf(h.fhb - 1, 4) \o BitsOf((2 ^ h.fwb) - 1 - 3, h.fwb) \o BitsOf((2 ^ h.fhb) - 1 - 5, h.fhb)
    \o (IF h.reduced = 0 THEN Bit(h.frameid) \o (IF h.frameid THEN BitsOf(5, 4) \o BitsOf(3, 3) ELSE << >>) ELSE << >>)
    \o BitsOf(h.t3, 3)
    \o (IF h.reduced = 0 THEN
            BitsOf(h.t4, 4) \o Bit(h.oh) \o (IF h.oh THEN BitsOf(h.t2, 2) ELSE << >>)
            \o Bit(h.csct) \o (IF h.csct THEN << >> ELSE << h.fsct >>)
            \o (IF h.csct \/ h.fsct = 1 THEN Bit(h.cimv) \o (IF h.cimv THEN << >> ELSE << h.fimv >>) ELSE << >>)
            \o (IF h.oh THEN BitsOf(5, 3) ELSE << >>)
        ELSE << >>)
    \o BitsOf(h.t3b, 3)
    \o ColorBits(h.col, h.profile)
    \o << h.film >>

EncodeSeqHdr(h) == PackBits(EncodeBits(h))

(* what av1C must show for h *)
Expected(h) ==
    LET x == h.col
        mono == IF h.profile # 1 THEN x.mono ELSE 0
        depth12 == h.profile = 2 /\ x.hb = 1 /\ x.tb = 1
        srgb == x.cdp = 1 /\ x.cp = 1 /\ x.tc = 13 /\ x.mc = 0
        sx == IF mono = 1 THEN 1 ELSE IF srgb THEN 0 ELSE IF h.profile = 0 THEN 1 ELSE IF h.profile = 1 THEN 0 ELSE IF depth12 THEN x.sx ELSE 1
        sy == IF mono = 1 THEN 1 ELSE IF srgb THEN 0 ELSE IF h.profile = 0 THEN 1 ELSE IF h.profile = 1 THEN 0
              ELSE IF depth12 THEN (IF x.sx = 1 THEN x.sy ELSE 0) ELSE 0
    IN [profile |-> h.profile, level |-> h.ops[1].level,
        tier |-> IF h.reduced = 0 /\ h.ops[1].level > 7 THEN h.ops[1].tier ELSE 0,
        hb |-> x.hb, tb |-> IF h.profile = 2 /\ x.hb = 1 THEN x.tb ELSE 0, mono |-> mono, sx |-> sx, sy |-> sy,
        csp |-> IF mono = 0 /\ ~srgb /\ sx = 1 /\ sy = 1 THEN x.csp ELSE 0]

(* ---- the enumerated sections ---- *)
Col0 == [hb |-> 0, tb |-> 0, mono |-> 0, cdp |-> 0, cp |-> 2, tc |-> 2, mc |-> 2, range |-> 0, sx |-> 1, sy |-> 1, csp |-> 0, sepuv |-> 0]
Op0 == [idc |-> 0, level |-> 8, tier |-> 0, dmp |-> FALSE, iddp |-> FALSE]
H0 == [profile |-> 0, still |-> 0, reduced |-> 0, timing |-> FALSE, equalpic |-> FALSE, lz |-> 0, dmi |-> FALSE, bdl |-> 5, idd |-> FALSE,
       ops |-> << Op0 >>, fwb |-> 10, fhb |-> 9, frameid |-> FALSE, t3 |-> 0, t4 |-> 0, oh |-> FALSE, t2 |-> 0,
       csct |-> TRUE, fsct |-> 0, cimv |-> TRUE, fimv |-> 0, t3b |-> 0, col |-> Col0, film |-> 0]

Ops(dmi, idd) ==
    { [idc |-> i, level |-> l, tier |-> t, dmp |-> d, iddp |-> p] :
        i \in {0, 2730}, l \in {0, 7, 8, 31}, t \in {0, 1}, d \in (IF dmi THEN BOOLEAN ELSE {FALSE}), p \in (IF idd THEN BOOLEAN ELSE {FALSE}) }

OpSeqs(dm, idd) ==
       { << a >> : a \in { o \in Ops(dm, idd) : o.idc = 0 } }
  \cup { << a, b >> : a \in { o \in Ops(dm, idd) : o.idc = 0 /\ o.level \in {7, 8} }, b \in { o \in Ops(dm, idd) : o.idc = 2730 /\ o.level \in {0, 31} } }
SecOperating(u) ==    \* profile x reduced/still x timing info x decoder model x display delay x operating points
    UNION { { [H0 EXCEPT !.profile = p, !.still = s[1], !.reduced = s[2], !.timing = ti, !.equalpic = eq, !.lz = lz, !.dmi = di[1], !.bdl = bd,
                         !.idd = di[2], !.ops = ops] :
                p \in (IF Lite THEN {0} ELSE 0..2), s \in { << 0, 0 >>, << 1, 0 >>, << 1, 1 >> }, ti \in BOOLEAN, eq \in BOOLEAN,
                lz \in (IF Lite THEN {0, 3} ELSE {0, 1, 3}), bd \in {1, 32},
                ops \in OpSeqs(di[1], di[2]) }
            : di \in BOOLEAN \X BOOLEAN }
SecOperatingOK(h) ==
    /\ (h.reduced = 1 => ~h.timing /\ ~h.idd /\ Len(h.ops) = 1 /\ h.ops[1].tier = 0 /\ ~h.ops[1].dmp /\ ~h.ops[1].iddp)
    /\ (~h.timing => ~h.equalpic /\ ~h.dmi)
    /\ (~h.equalpic => h.lz = 0)
    /\ (~h.dmi => h.bdl = 1)
    /\ \A i \in 1..Len(h.ops) : h.ops[i].level <= 7 => h.ops[i].tier = 0

SecColor(u) ==        \* every path of color_config for every profile
    { [H0 EXCEPT !.profile = p, !.col = [hb |-> hb, tb |-> tb, mono |-> mo, cdp |-> cd[1], cp |-> cd[2], tc |-> cd[3], mc |-> cd[4],
                                          range |-> r, sx |-> sx, sy |-> sy, csp |-> csp, sepuv |-> su], !.film = fg] :
        p \in 0..2, hb \in 0..1, tb \in 0..1, mo \in 0..1,
        cd \in { << 0, 2, 2, 2 >>, << 1, 1, 13, 0 >>, << 1, 1, 1, 1 >>, << 1, 9, 16, 9 >>, << 1, 1, 13, 1 >> },
        r \in 0..1, sx \in 0..1, sy \in 0..1, csp \in {0, 1, 2, 3}, su \in 0..1, fg \in 0..1 }
SecColorOK(h) ==
    LET x == h.col IN
    /\ (~(h.profile = 2 /\ x.hb = 1) => x.tb = 0)
    /\ (h.profile = 1 => x.mono = 0)
    /\ (~(h.profile = 2 /\ x.hb = 1 /\ x.tb = 1) => x.sx = 1 /\ x.sy = 1)     \* not coded: keep one representative
    /\ (x.sx = 0 => x.sy = 1)
    /\ (x.mono = 1 => x.csp = 0 /\ x.sepuv = 0)

SecTools(u) ==        \* frame ids, order hint, screen content / integer mv choices, frame size field widths
    { [H0 EXCEPT !.reduced = rd, !.still = rd, !.frameid = fi, !.oh = oh, !.t2 = t2, !.csct = cs, !.fsct = fs, !.cimv = ci, !.fimv = fm,
                 !.t3 = t3, !.t4 = t4, !.t3b = t3b, !.fwb = wb[1], !.fhb = wb[2]] :
        rd \in 0..1, fi \in BOOLEAN, oh \in BOOLEAN, t2 \in {0, 3}, cs \in BOOLEAN, fs \in 0..1, ci \in BOOLEAN, fm \in 0..1,
        t3 \in {0, 7}, t4 \in {0, 15}, t3b \in {0, 5}, wb \in { << 10, 9 >>, << 1, 1 >>, << 16, 16 >> } }
SecToolsOK(h) ==
    /\ (h.reduced = 1 => ~h.frameid /\ ~h.oh /\ h.csct /\ h.cimv /\ h.t4 = 0)
    /\ (~h.oh => h.t2 = 0)
    /\ (h.csct => h.fsct = 0)
    /\ ((~h.csct /\ h.fsct = 0) => h.cimv /\ h.fimv = 0)
    /\ (h.cimv => h.fimv = 0)

Headers(u) ==
       (IF "operating" \in Sections THEN { h \in SecOperating(0) : SecOperatingOK(h) } ELSE {})
  \cup (IF "color" \in Sections THEN { h \in SecColor(0) : SecColorOK(h) } ELSE {})
  \cup (IF "tools" \in Sections THEN { h \in SecTools(0) : SecToolsOK(h) } ELSE {})

(* ---- OBU framings of a sequence header payload P, followed by a frame OBU ---- *)
Pad(n) == [i \in 1..n |-> 16 + i]
FrameObu == << 50, 4, 16, 17, 18, 19 >>
TD == << 18, 0 >>
Framings(P) == <<
    TD \o << 10, Len(P) >> \o P \o FrameObu,                       \* size field, after a temporal delimiter
    << 14, 0, Len(P) >> \o P \o FrameObu,                          \* extension byte + size field
    << 10, 128 + Len(P), 0 >> \o P \o FrameObu,                    \* two-byte (non-minimal) leb128 size
    TD \o << 8 >> \o P >>                                          \* no size field: the OBU runs to the end of the data

Init == f \in Headers(0) /\ done = FALSE
Emit == /\ ~done /\ done' = TRUE /\ f' = f
        /\ LET P == EncodeSeqHdr(f) IN
           \A k \in 1..(IF Len(P) < 120 THEN 4 ELSE 1) :
              PrintT("REPLAY|" \o ToJson([exp |-> Expected(f), k |-> k, data |-> Framings(P)[k]]))
Spec == Init /\ [][Emit]_vars

(* design check: the reader recovers what the writer encoded, with well-formed trailing bits *)
RoundTrip == ~done \/
    LET P == EncodeSeqHdr(f)
        r == ParseSeqHdr(P)
        e == Expected(f)
    IN /\ r.ok
       /\ r.profile = e.profile /\ r.level = e.level /\ r.tier = e.tier /\ r.hb = e.hb /\ r.tb = e.tb
       /\ r.mono = e.mono /\ r.sx = e.sx /\ r.sy = e.sy /\ r.csp = e.csp
       /\ r.endbit = Len(EncodeBits(f)) + 1
       /\ TrailingOk(P, r.endbit)
FramingOK == ~done \/
    LET P == EncodeSeqHdr(f) IN
    \A k \in 1..4 : Len(P) < 120 => (Av1HasConfig(Framings(P)[k]) /\ Av1SeqPayload(Framings(P)[k]) = P)
=============================================================================
