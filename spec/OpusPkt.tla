------------------------------- MODULE OpusPkt -------------------------------
(* Opus packet TOC byte (RFC 6716 section 3.1) as far as muxide documents it:  *)
(* "basic structural correctness" = non-empty, and for code 3 a frame-count    *)
(* byte with a non-zero count.  Properties C04, C12.                           *)
EXTENDS Bytes

TocConfig(d) == d[1] \div 8
TocCode(d)   == d[1] % 4

(* samples at 48 kHz of one frame, by TOC config *)
FrameSamples(c) ==
    IF c \in 0..3 THEN 480 ELSE IF c \in 4..7 THEN 960 ELSE IF c \in 8..11 THEN 1920
    ELSE IF c \in 12..15 THEN 2880 ELSE IF c \in 16..19 THEN 480 ELSE IF c \in 20..23 THEN 960
    ELSE IF c \in 24..27 THEN 120 ELSE 240

FrameCount(d) ==   \* 0 = not determinable
    IF d = << >> THEN 0
    ELSE IF TocCode(d) = 0 THEN 1
    ELSE IF TocCode(d) \in {1, 2} THEN 2
    ELSE IF Len(d) < 2 THEN 0 ELSE d[2] % 64

ValidOpus(d) == d # << >> /\ FrameCount(d) > 0

PacketSamples(d) == IF ValidOpus(d) THEN FrameSamples(TocConfig(d)) * FrameCount(d) ELSE 0

=============================================================================
