------------------------------- MODULE Av1Seq -------------------------------
(***************************************************************************)
(* AV1 bitstream: OBU framing (AV1 spec section 5.3) and the                *)
(* sequence_header_obu syntax (section 5.5.1, 5.5.2 color_config,           *)
(* 5.5.3 timing_info, 5.5.4 decoder_model_info), transcribed as             *)
(*   - a reader  ParseSeqHdr(payload)  -> the fields av1C must show, and    *)
(*   - a writer  EncodeSeqHdr(fields)  -> bits (used by MC_Av1Seq to        *)
(*     enumerate every branch of the syntax; TLC checks Parse o Encode = id)*)
(* Properties C07, C04, C12.                                                *)
(***************************************************************************)
EXTENDS Bytes

(* ---------------- bit reading ---------------- *)
(* Positions are 1-based bit indices; -1 means "ran out of data".           *)
Have(d, p, w) == p >= 1 /\ p + w - 1 <= NBits(d)
Rd(d, p, w) == BitsVal(d, p, w)
Adv(d, p, w) == IF p = -1 \/ ~Have(d, p, w) THEN -1 ELSE p + w

(* uvlc(): leading zeros lz, a one, then lz value bits (lz <= 32).           *)
RECURSIVE LeadZeros(_, _, _)
LeadZeros(d, p, n) == IF ~Have(d, p, 1) THEN -1
                      ELSE IF BitAt(d, p) = 1 THEN n
                      ELSE IF n >= 32 THEN -1 ELSE LeadZeros(d, p + 1, n + 1)
UvlcEnd(d, p) == IF p = -1 THEN -1 ELSE
                 LET lz == LeadZeros(d, p, 0) IN
                 IF lz = -1 THEN -1 ELSE Adv(d, p + lz + 1, lz)

(* timing_info(): 32 + 32 + 1 bits, then uvlc if equal_picture_interval.     *)
TimingEnd(d, p) == IF ~Have(d, p, 65) THEN -1
                   ELSE IF BitAt(d, p + 64) = 1 THEN UvlcEnd(d, p + 65) ELSE p + 65

(* operating points: returns [p, level, tier] of operating point 0.          *)
RECURSIVE OpPoints(_, _, _, _, _, _, _)
OpPoints(d, p, i, cnt, dmi, bdl, idd) ==
    IF i = cnt THEN [p |-> p, level |-> 0, tier |-> 0]
    ELSE IF ~Have(d, p, 17) THEN [p |-> -1, level |-> 0, tier |-> 0]
    ELSE LET level == Rd(d, p + 12, 5)
             p1 == p + 17
             hasTier == level > 7
             tier == IF hasTier /\ Have(d, p1, 1) THEN BitAt(d, p1) ELSE 0
             p2 == IF hasTier THEN Adv(d, p1, 1) ELSE p1
             p3 == IF p2 = -1 THEN -1
                   ELSE IF ~dmi THEN p2
                   ELSE IF ~Have(d, p2, 1) THEN -1
                   ELSE IF BitAt(d, p2) = 1 THEN Adv(d, p2 + 1, 2 * bdl + 1) ELSE p2 + 1
             p4 == IF p3 = -1 THEN -1
                   ELSE IF ~idd THEN p3
                   ELSE IF ~Have(d, p3, 1) THEN -1
                   ELSE IF BitAt(d, p3) = 1 THEN Adv(d, p3 + 1, 4) ELSE p3 + 1
         IN IF p4 = -1 THEN [p |-> -1, level |-> 0, tier |-> 0]
            ELSE LET rest == OpPoints(d, p4, i + 1, cnt, dmi, bdl, idd) IN
                 IF i = 0 THEN [p |-> rest.p, level |-> level, tier |-> tier] ELSE rest

Bad == [ok |-> FALSE]

(* color_config(): returns the colour fields and the next position.          *)
ColorConfig(d, p, profile) ==
    IF ~Have(d, p, 1) THEN [p |-> -1] ELSE
    LET hb == BitAt(d, p)
        readTb == profile = 2 /\ hb = 1
        tb == IF readTb /\ Have(d, p + 1, 1) THEN BitAt(d, p + 1) ELSE 0
        p1 == IF readTb THEN Adv(d, p + 1, 1) ELSE p + 1
        depth == IF profile = 2 /\ tb = 1 THEN 12 ELSE IF hb = 1 THEN 10 ELSE 8
        readMono == profile # 1
        mono == IF readMono /\ p1 # -1 /\ Have(d, p1, 1) THEN BitAt(d, p1) ELSE 0
        p2 == IF p1 = -1 THEN -1 ELSE IF readMono THEN Adv(d, p1, 1) ELSE p1
        cdp == IF p2 # -1 /\ Have(d, p2, 1) THEN BitAt(d, p2) ELSE 0
        p3 == IF p2 = -1 THEN -1 ELSE Adv(d, p2, 1)
        haveDesc == cdp = 1 /\ p3 # -1 /\ Have(d, p3, 24)
        cp == IF haveDesc THEN Rd(d, p3, 8) ELSE 2
        tc == IF haveDesc THEN Rd(d, p3 + 8, 8) ELSE 2
        mc == IF haveDesc THEN Rd(d, p3 + 16, 8) ELSE 2
        p4 == IF p3 = -1 THEN -1 ELSE IF cdp = 1 THEN Adv(d, p3, 24) ELSE p3
    IN
    IF p4 = -1 THEN [p |-> -1]
    ELSE IF mono = 1 THEN
        \* color_range; subsampling (1,1); CSP_UNKNOWN; separate_uv_delta_q = 0; return
        [p |-> Adv(d, p4, 1), hb |-> hb, tb |-> tb, mono |-> 1, sx |-> 1, sy |-> 1, csp |-> 0]
    ELSE IF cp = 1 /\ tc = 13 /\ mc = 0 THEN
        \* sRGB: color_range = 1, (0,0); then separate_uv_delta_q
        [p |-> Adv(d, p4, 1), hb |-> hb, tb |-> tb, mono |-> 0, sx |-> 0, sy |-> 0, csp |-> 0]
    ELSE
        LET p5 == Adv(d, p4, 1)            \* color_range
            read12 == profile = 2 /\ depth = 12
            sx == IF profile = 0 THEN 1 ELSE IF profile = 1 THEN 0
                  ELSE IF read12 THEN (IF p5 # -1 /\ Have(d, p5, 1) THEN BitAt(d, p5) ELSE 0) ELSE 1
            p6 == IF p5 = -1 THEN -1 ELSE IF read12 THEN Adv(d, p5, 1) ELSE p5
            readSy == read12 /\ sx = 1
            sy == IF profile = 0 THEN 1 ELSE IF profile = 1 THEN 0
                  ELSE IF read12 THEN (IF readSy /\ p6 # -1 /\ Have(d, p6, 1) THEN BitAt(d, p6) ELSE 0) ELSE 0
            p7 == IF p6 = -1 THEN -1 ELSE IF readSy THEN Adv(d, p6, 1) ELSE p6
            readCsp == sx = 1 /\ sy = 1
            csp == IF readCsp /\ p7 # -1 /\ Have(d, p7, 2) THEN Rd(d, p7, 2) ELSE 0
            p8 == IF p7 = -1 THEN -1 ELSE IF readCsp THEN Adv(d, p7, 2) ELSE p7
        IN [p |-> Adv(d, p8, 1),           \* separate_uv_delta_q
            hb |-> hb, tb |-> tb, mono |-> 0, sx |-> sx, sy |-> sy, csp |-> csp]

(* sequence_header_obu(), given the OBU payload bytes.                       *)
ParseSeqHdr(d) ==
    IF ~Have(d, 1, 5) THEN Bad ELSE
    LET profile == Rd(d, 1, 3)
        reduced == BitAt(d, 5) = 1
        \* ---- operating parameters ----
        op == IF reduced THEN
                  IF Have(d, 6, 5) THEN [p |-> 11, level |-> Rd(d, 6, 5), tier |-> 0]
                  ELSE [p |-> -1, level |-> 0, tier |-> 0]
              ELSE IF ~Have(d, 6, 1) THEN [p |-> -1, level |-> 0, tier |-> 0]
              ELSE LET tip == BitAt(d, 6) = 1
                       pT == IF tip THEN TimingEnd(d, 7) ELSE 7
                       \* decoder_model_info_present_flag is read only inside timing_info
                       dmi == tip /\ pT # -1 /\ Have(d, pT, 1) /\ BitAt(d, pT) = 1
                       pD0 == IF pT = -1 THEN -1 ELSE IF tip THEN Adv(d, pT, 1) ELSE pT
                       bdl == IF dmi /\ pD0 # -1 /\ Have(d, pD0, 5) THEN Rd(d, pD0, 5) + 1 ELSE 0
                       pD == IF pD0 = -1 THEN -1 ELSE IF dmi THEN Adv(d, pD0, 47) ELSE pD0
                       idd == pD # -1 /\ Have(d, pD, 1) /\ BitAt(d, pD) = 1
                       pC == IF pD = -1 THEN -1 ELSE Adv(d, pD, 1)
                       cnt == IF pC # -1 /\ Have(d, pC, 5) THEN Rd(d, pC, 5) + 1 ELSE 0
                       pO == IF pC = -1 THEN -1 ELSE Adv(d, pC, 5)
                   IN IF pO = -1 THEN [p |-> -1, level |-> 0, tier |-> 0]
                      ELSE OpPoints(d, pO, 0, cnt, dmi, bdl, idd)
    IN
    IF op.p = -1 \/ ~Have(d, op.p, 8) THEN Bad ELSE
    LET fwb == Rd(d, op.p, 4) + 1
        fhb == Rd(d, op.p + 4, 4) + 1
        pS == Adv(d, op.p + 8, fwb + fhb)
        \* frame ids
        pF == IF pS = -1 THEN -1
              ELSE IF reduced THEN pS
              ELSE IF ~Have(d, pS, 1) THEN -1
              ELSE IF BitAt(d, pS) = 1 THEN Adv(d, pS + 1, 7) ELSE pS + 1
        pG == IF pF = -1 THEN -1 ELSE Adv(d, pF, 3)   \* 128x128, filter_intra, intra_edge
        \* tools of the non-reduced header
        pH == IF pG = -1 THEN -1
              ELSE IF reduced THEN pG
              ELSE IF ~Have(d, pG, 5) THEN -1
              ELSE LET oh == BitAt(d, pG + 4) = 1
                       q1 == IF oh THEN Adv(d, pG + 5, 2) ELSE pG + 5
                       choose == q1 # -1 /\ Have(d, q1, 1) /\ BitAt(d, q1) = 1
                       q2 == IF q1 = -1 THEN -1 ELSE Adv(d, q1, 1)
                       force == IF choose THEN 2
                                ELSE IF q2 # -1 /\ Have(d, q2, 1) THEN BitAt(d, q2) ELSE 0
                       q3 == IF q2 = -1 THEN -1 ELSE IF choose THEN q2 ELSE Adv(d, q2, 1)
                       q4 == IF q3 = -1 THEN -1
                             ELSE IF force > 0 THEN
                                 (IF ~Have(d, q3, 1) THEN -1
                                  ELSE IF BitAt(d, q3) = 1 THEN q3 + 1 ELSE Adv(d, q3 + 1, 1))
                             ELSE q3
                   IN IF q4 = -1 THEN -1 ELSE IF oh THEN Adv(d, q4, 3) ELSE q4
        pI == IF pH = -1 THEN -1 ELSE Adv(d, pH, 3)   \* superres, cdef, restoration
    IN
    IF pI = -1 THEN Bad ELSE
    LET cc == ColorConfig(d, pI, profile) IN
    IF cc.p = -1 THEN Bad ELSE
    LET pEnd == Adv(d, cc.p, 1)                       \* film_grain_params_present
    IN IF pEnd = -1 THEN Bad
       ELSE [ok |-> TRUE, profile |-> profile, level |-> op.level, tier |-> op.tier,
             hb |-> cc.hb, tb |-> cc.tb, mono |-> cc.mono, sx |-> cc.sx, sy |-> cc.sy,
             csp |-> cc.csp, endbit |-> pEnd]

(* trailing_bits(): a one, then zeros to the end of the payload.             *)
TrailingOk(d, p) == /\ Have(d, p, 1) /\ BitAt(d, p) = 1
                    /\ \A q \in (p + 1)..NBits(d) : BitAt(d, q) = 0

(* ---------------- OBU framing ---------------- *)
ObuType(b) == (b \div 8) % 16
ObuExt(b) == (b \div 4) % 2
ObuHasSize(b) == (b \div 2) % 2

(* leb128 at byte position p: [n bytes used (0 = invalid), value (capped)]   *)
Leb(d, p) ==
    LET K == { k \in 1..8 : p + k - 1 <= Len(d) /\ d[p + k - 1] < 128
                              /\ \A j \in 1..(k-1) : d[p + j - 1] >= 128 }
    IN IF K = {} THEN [n |-> 0, v |-> 0]
       ELSE LET k == MinOf(K)
                big == (\E j \in 5..k : d[p + j - 1] % 128 # 0) \/ (k >= 5 /\ FALSE)
                val == SumSeq([j \in 1..(IF k < 4 THEN k ELSE 4) |-> (d[p + j - 1] % 128) * (128 ^ (j - 1))])
            IN [n |-> k, v |-> IF big THEN BIG ELSE val]

(* One OBU starting at byte p: [ok, type, hdr (header bytes incl. size field), total] *)
ObuAt(d, p) ==
    IF p > Len(d) \/ d[p] >= 128 THEN [ok |-> FALSE]
    ELSE LET b == d[p]
             h1 == 1 + ObuExt(b)
         IN IF p + h1 - 1 > Len(d) THEN [ok |-> FALSE]
            ELSE IF ObuHasSize(b) = 1 THEN
                    LET l == Leb(d, p + h1) IN
                    IF l.n = 0 \/ p + h1 + l.n - 1 + l.v > Len(d) THEN [ok |-> FALSE]
                    ELSE [ok |-> TRUE, type |-> ObuType(b), hdr |-> h1 + l.n, total |-> h1 + l.n + l.v]
                 ELSE [ok |-> TRUE, type |-> ObuType(b), hdr |-> h1, total |-> Len(d) - p + 1]

(* obu_header() + obu_size alone (what codec::av1::parse_obu_header reports): no check that the payload fits *)
ObuHeaderAt(d, p) ==
    IF p > Len(d) \/ d[p] >= 128 THEN [ok |-> FALSE]
    ELSE LET b == d[p]
             h1 == 1 + ObuExt(b)
         IN IF p + h1 - 1 > Len(d) THEN [ok |-> FALSE]
            ELSE IF ObuHasSize(b) = 1 THEN
                    LET l == Leb(d, p + h1) IN
                    IF l.n = 0 THEN [ok |-> FALSE]
                    ELSE [ok |-> TRUE, type |-> ObuType(b), ext |-> ObuExt(b), hdr |-> h1 + l.n, payload |-> l.v]
                 ELSE [ok |-> TRUE, type |-> ObuType(b), ext |-> ObuExt(b), hdr |-> h1, payload |-> Len(d) - p + 1 - h1]

(* The first sequence-header OBU of a temporal unit: [found, from, hdr, total] *)
RECURSIVE FirstSeqObu(_, _)
FirstSeqObu(d, p) ==
    IF p > Len(d) THEN [found |-> FALSE]
    ELSE LET o == ObuAt(d, p) IN
         IF ~o.ok THEN [found |-> FALSE]
         ELSE IF o.type = 1 THEN [found |-> TRUE, from |-> p, hdr |-> o.hdr, total |-> o.total]
         ELSE IF o.total = 0 THEN [found |-> FALSE]
         ELSE FirstSeqObu(d, p + o.total)

Av1SeqObuBytes(d) == LET s == FirstSeqObu(d, 1) IN Slice(d, s.from, s.from + s.total - 1)
Av1SeqPayload(d) == LET s == FirstSeqObu(d, 1) IN Slice(d, s.from + s.hdr, s.from + s.total - 1)

Av1Parsed(d) == IF d = << >> \/ ~FirstSeqObu(d, 1).found THEN Bad ELSE ParseSeqHdr(Av1SeqPayload(d))

(* "Carries its codec configuration": a sequence header OBU that parses and   *)
(* uses a defined profile.                                                     *)
Av1HasConfig(d) == LET r == Av1Parsed(d) IN r.ok /\ r.profile <= 2

(* Headers on which "valid" is debatable (syntax parses but the OBU does not   *)
(* end in well-formed trailing bits): neither outcome is judged.               *)
Av1ConfigUnclear(d) == LET r == Av1Parsed(d) IN r.ok /\ ~TrailingOk(Av1SeqPayload(d), r.endbit)

(* The four av1C header bytes the file must show (AV1-ISOBMFF 2.3.3).          *)
Av1CHeader(r) == << 129, r.profile * 32 + r.level,
                    r.tier * 128 + r.hb * 64 + r.tb * 32 + r.mono * 16 + r.sx * 8 + r.sy * 4 + r.csp, 0 >>

=============================================================================
