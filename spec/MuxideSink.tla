----------------------------- MODULE MuxideSink -----------------------------
(***************************************************************************)
(* Refinement of Finish: the finished file F (bytes 1..FLen) leaves the     *)
(* muxer as a series of write() calls against a caller-supplied sink that   *)
(* may accept only part of a buffer, report Interrupted, return Ok(0) or    *)
(* fail.  The muxer side is the write_all loop of Mp4Writer::write_counted. *)
(* Property C13 (and the byte accounting of C06).                           *)
(*                                                                          *)
(* The same predicates are used as monitors by TraceMuxide on recorded      *)
(* sink_write events (buffer boundaries are not prescribed: any n >= 1).    *)
(***************************************************************************)
EXTENDS Integers, Sequences, FiniteSets, TLC

CONSTANTS FLen, MaxBuf, MaxIntr, SDev

VARIABLES pos,        \* bytes of F the muxer believes it has sent
          buf,        \* bytes of the current buffer still to be offered (0 = between buffers)
          delivered,  \* what the sink accepted, as a sequence of byte indices of F
          st,         \* "run" | "done" | "failed"
          result,     \* "none" | "ok" | "err"
          faulted,    \* a Zero or Fail response has happened
          intrs,      \* Interrupted responses so far (bounded)
          late        \* writes attempted after a failure

svars == << pos, buf, delivered, st, result, faulted, intrs, late >>

SInit == pos = 0 /\ buf = 0 /\ delivered = << >> /\ st = "run" /\ result = "none"
         /\ faulted = FALSE /\ intrs = 0 /\ late = 0

(* the muxer picks the next buffer *)
NextBuffer == /\ st = "run" /\ buf = 0 /\ pos < FLen
              /\ \E n \in 1..MaxBuf : n <= FLen - pos /\ buf' = n
              /\ UNCHANGED << pos, delivered, st, result, faulted, intrs, late >>

Bytes(from, n) == [i \in 1..n |-> from + i]

(* the sink answers one write(buf) call *)
Accept == /\ st = "run" /\ buf > 0
          /\ \E k \in 1..buf :
                /\ delivered' = delivered \o Bytes(pos, k)
                /\ pos' = IF "WriteNotAll" \in SDev THEN pos + buf ELSE pos + k     \* write() instead of write_all()
                /\ buf' = IF "WriteNotAll" \in SDev THEN 0 ELSE buf - k
          /\ UNCHANGED << st, result, faulted, intrs, late >>
Intr == /\ st = "run" /\ buf > 0 /\ intrs < MaxIntr /\ intrs' = intrs + 1
        /\ UNCHANGED << pos, buf, delivered, st, result, faulted, late >>
ZeroOrFail == /\ st = "run" /\ buf > 0
              /\ faulted' = TRUE /\ st' = "failed" /\ result' = "err"
              /\ UNCHANGED << pos, buf, delivered, intrs, late >>
Complete == /\ st = "run" /\ buf = 0 /\ pos = FLen /\ st' = "done" /\ result' = "ok"
            /\ UNCHANGED << pos, buf, delivered, faulted, intrs, late >>
(* a later API call: with the retry deviation the muxer would start writing again *)
Retry == /\ st = "failed" /\ "RetryAfterFail" \in SDev /\ late < 1
         /\ late' = late + 1 /\ delivered' = delivered \o Bytes(0, 1)
         /\ UNCHANGED << pos, buf, st, result, faulted, intrs >>

SNext == NextBuffer \/ Accept \/ Intr \/ ZeroOrFail \/ Complete \/ Retry
SSpec == SInit /\ [][SNext]_svars

(* ---- C13 ---- *)
IsPrefix == \A i \in 1..Len(delivered) : delivered[i] = i
PrefixAlways == IsPrefix
ErrIffFailed == /\ (result = "ok" => ~faulted /\ Len(delivered) = FLen)
                /\ (result = "err" <=> faulted)
SilentAfterFailure == [][ faulted => delivered' = delivered ]_svars
ShortWritesHarmless == (st = "done") => (Len(delivered) = FLen /\ IsPrefix)
=============================================================================
