SPECIFICATION TSpec
POSTCONDITION Consumed
CHECK_DEADLOCK FALSE
