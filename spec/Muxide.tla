------------------------------- MODULE Muxide -------------------------------
(***************************************************************************)
(* Sequential reference model of muxide's progressive muxer                 *)
(* (muxide::api::MuxerBuilder / Muxer, src/api.rs + src/muxer/mp4.rs).       *)
(*                                                                          *)
(* Abstract state: configuration, phase, the accepted video and audio       *)
(* samples (with the duration back-patched when the next sample arrives,    *)
(* as the implementation does), the convenience-API clocks, and the number  *)
(* of bytes handed to the sink.  One action per public entry point.         *)
(*                                                                          *)
(* The module is used in two ways (same operators, same actions):           *)
(*   - MCMuxide.tla: bounded exhaustive exploration.  The model decides the *)
(*     outcome of every call from the contract and builds the file with an  *)
(*     operational layout algorithm (schedule, cursor walk, tables); the    *)
(*     declarative property predicates below must hold on that file.        *)
(*   - TraceMuxide.tla: trace validation.  The outcome and the file         *)
(*     projection are the ones OBSERVED from the real library; the same     *)
(*     predicates are evaluated as monitors and report signatures.          *)
(*                                                                          *)
(* Time.  A timestamp argument is a token [k, n]:                           *)
(*   fin n    finite, n >= 0 in the instance's time unit                    *)
(*   negzero  -0.0          neg   a negative finite value                   *)
(*   nan, pinf, ninf        huge  1e300 (finite, saturates the tick cast)   *)
(* In mode "third" the unit is 1/270000 s (a third of a 90 kHz tick, so two *)
(* distinct timestamps can round to one tick and no value is a rounding     *)
(* tie); in mode "tick" the unit is U ticks (numeric embedding for field-   *)
(* width boundaries, DESIGN.md 2.4).                                        *)
(***************************************************************************)
EXTENDS Bytes, AnnexB, Adts, OpusPkt, Av1Seq, Vp9Hdr, SequencesExt, TLC

CONSTANTS
    Dev      \* set of deviation switches reproducing known defects (normally {})

VARIABLES
    cfg,     \* configuration record fixed by build()
    phase,   \* "open" | "finished" | "failed" | "gone"
    v, a,    \* accepted samples, in acceptance (= decode) order
    clockV,  \* encode_video clock, in time units
    clockA,  \* encode_audio clock, in time units
    shadow,  \* implementation-shaped bookkeeping that exists only to host deviations
    sunk,    \* bytes handed to the sink so far
    res      \* outcome of the last call

vars == << cfg, phase, v, a, clockV, clockA, shadow, sunk, res >>

None == -1
HUGE3 == 2147483647          \* seconds-domain stand-in for 1e300 s
SAT   == 2000000000          \* tick stand-in for a saturated (u64::MAX) timestamp

-----------------------------------------------------------------------------
(* Time tokens *)
Fin(n) == [k |-> "fin", n |-> n]
GoodT(t) == t.k \in {"fin", "negzero", "huge"}       \* finite and non-negative
S3(t) == IF t.k = "fin" THEN t.n ELSE IF t.k = "negzero" THEN 0
         ELSE IF t.k = "huge" THEN HUGE3 ELSE None
(* mode "third": unit = 1/3 tick (never a tie); "tick": unit = U ticks; "d32": unit = 1/32 s = 2812.5 ticks, exactly   *)
(* representable in binary floating point, so odd n are exact ties and "rounded to the nearest tick" means half up *)
TickOfUnits(n) == IF cfg.mode = "third" THEN (n + 1) \div 3 ELSE IF cfg.mode = "d32" THEN (n * 5625 + 1) \div 2 ELSE n
Tk(t) == IF t.k = "huge" THEN SAT ELSE IF S3(t) = None THEN None ELSE TickOfUnits(S3(t))
UnitsPerTick == IF cfg.mode = "third" THEN 3 ELSE 1

-----------------------------------------------------------------------------
(* Frames *)
HasConfig(vc, d) ==
    IF d = << >> THEN FALSE
    ELSE IF vc = "h264" THEN H264HasConfig(d)
    ELSE IF vc = "h265" THEN H265HasConfig(d)
    ELSE IF vc = "av1"  THEN Av1HasConfig(d)
    ELSE Vp9HasConfig(d)

Stored(vc, d) == IF vc \in {"h264", "h265"} THEN ToLengthPrefixed(d) ELSE d

ValidAudio(ac, d) == IF ac = "aac" THEN ValidAdts(d) ELSE IF ac = "opus" THEN ValidOpus(d) ELSE FALSE
(* total: an implementation that accepts a frame shorter than an ADTS header (a C04 signature) stores nothing judged *)
StoredA(ac, d) == IF ac = "aac" THEN (IF Len(d) >= 7 THEN AdtsPayload(d) ELSE << >>) ELSE d

(* Key-frame detection of the convenience API (DESIGN.md A.7) *)
DetectKey(vc, d, nAccepted) ==
    IF d = << >> THEN FALSE
    ELSE IF vc = "h264" THEN H264HasIdr(d)
    ELSE IF vc = "h265" THEN H265HasIdr(d)
    ELSE IF vc = "av1"  THEN nAccepted = 0
    ELSE Vp9IsKey(d)

-----------------------------------------------------------------------------
(* Derived state *)
LastV == v[Len(v)]
LastA == a[Len(a)]
LastDec3 == IF v = << >> THEN None ELSE LastV.d3
LastDecTick == IF v = << >> THEN None ELSE LastV.dt
LastPres3 == IF v = << >> THEN None ELSE LastV.p3
FirstPres3 == IF v = << >> THEN None ELSE v[1].p3

(***************************************************************************)
(* The contract (docs/contract.md, property C04): the set of documented     *)
(* preconditions a call violates.  Calls are records                        *)
(*   [op, pts, dts, data, key, ms, n, how]  (unused fields absent).         *)
(***************************************************************************)
FinishedSet == IF phase \in {"finished", "gone"} THEN {"Finished"} ELSE {}

VideoViolated(presT, decT, data, key) ==
         FinishedSet
    \cup (IF data = << >> THEN {"EmptyVideo"} ELSE {})
    \cup (IF ~GoodT(presT) \/ ~GoodT(decT) THEN {"BadTimeV"} ELSE {})
    \cup (IF v # << >> /\ GoodT(decT) /\ S3(decT) <= LastDec3 THEN {"VideoOrder"} ELSE {})
    \cup (IF v = << >> /\ ~key THEN {"FirstKey"} ELSE {})
    \cup (IF v = << >> /\ ~HasConfig(cfg.vc, data) THEN {"FirstConfig"} ELSE {})
    \cup (IF v # << >> /\ GoodT(decT) /\ S3(decT) > LastDec3 /\ Tk(decT) - LastDecTick > cfg.w32
          THEN {"GapTooLarge"} ELSE {})

AudioViolated(presT, data) ==
         FinishedSet
    \cup (IF cfg.ac = "none" THEN {"AudioNotConfigured"} ELSE {})
    \cup (IF ~GoodT(presT) THEN {"BadTimeA"} ELSE {})
    \cup (IF data = << >> THEN {"EmptyAudio"} ELSE {})
    \cup (IF a # << >> /\ GoodT(presT) /\ S3(presT) < LastA.p3 THEN {"AudioOrder"} ELSE {})
    \cup (IF v = << >> \/ (GoodT(presT) /\ S3(presT) < FirstPres3) THEN {"AudioBeforeVideo"} ELSE {})
    \cup (IF cfg.ac # "none" /\ data # << >> /\ ~ValidAudio(cfg.ac, data) THEN {"BadAudioFraming"} ELSE {})
    \cup (IF a # << >> /\ GoodT(presT) /\ Tk(presT) - LastA.pt > cfg.w32 THEN {"GapTooLarge"} ELSE {})

(* Points on which the contract is silent or two readings are defensible     *)
(* (DESIGN.md A.11): neither outcome may raise an alarm.                     *)
(* a parameter set that cannot be stored behind a 16-bit length (C16 decides what must happen) *)
ParamTooLong(vc, d) ==
    IF vc = "h264" THEN Len(H264Sps(d)) > 65535 \/ Len(H264Pps(d)) > 65535
    ELSE IF vc = "h265" THEN Len(H265Vps(d)) > 65535 \/ Len(H265Sps(d)) > 65535 \/ Len(H265Pps(d)) > 65535
    ELSE FALSE
ConfigTooWide == cfg.w > 65535 \/ cfg.h > 65535 \/ (cfg.ac = "opus" /\ cfg.ch > 255)

VideoUnspecified(op, presT, decT) ==
    \/ phase = "failed"
    \/ presT.k = "huge" \/ decT.k = "huge"                               \* saturating cast: C16
    \/ (v # << >> /\ LastDecTick = SAT)
    \/ (GoodT(presT) /\ GoodT(decT) /\ Abs(Tk(presT) - Tk(decT)) > cfg.i32)  \* cts width: C16
    \/ (v # << >> /\ GoodT(decT) /\ S3(decT) > LastDec3 /\ Tk(decT) = LastDecTick)   \* same tick
    \/ (op \in {"wv", "ev"} /\ v # << >> /\ GoodT(presT) /\ S3(presT) > LastDec3 /\ S3(presT) <= LastPres3)

VideoUnspecifiedD(op, presT, decT, data) ==
    \/ (v = << >> /\ Len(data) > 65535 /\ ParamTooLong(cfg.vc, data))
    \/ VideoUnspecified(op, presT, decT)

AudioUnspecified(presT, data) ==
    \/ phase = "failed"
    \/ presT.k = "huge"
    \/ (a # << >> /\ LastA.pt = SAT)
    \/ (cfg.ac = "aac" /\ data # << >> /\ AdtsHeaderOnly(data))

(* Arguments of the two convenience calls, reduced to the explicit ones.     *)
EvTime == Fin(clockV)
EaTime == Fin(clockA)

CallViolated(c) ==
    IF c.op = "wv" THEN VideoViolated(c.pts, c.pts, c.data, c.key)
    ELSE IF c.op = "wvd" THEN VideoViolated(c.pts, c.dts, c.data, c.key)
    ELSE IF c.op = "ev" THEN VideoViolated(EvTime, EvTime, c.data, DetectKey(cfg.vc, c.data, Len(v)))
    ELSE IF c.op = "wa" THEN AudioViolated(c.pts, c.data)
    ELSE IF c.op = "ea" THEN AudioViolated(EaTime, c.data)
    ELSE FinishedSet     \* fin

CallUnspecified(c) ==
    IF c.op = "wv" THEN VideoUnspecifiedD("wv", c.pts, c.pts, c.data)
    ELSE IF c.op = "wvd" THEN VideoUnspecifiedD("wvd", c.pts, c.dts, c.data)
    ELSE IF c.op = "ev" THEN VideoUnspecifiedD("ev", EvTime, EvTime, c.data)
    ELSE IF c.op = "wa" THEN AudioUnspecified(c.pts, c.data)
    ELSE IF c.op = "ea" THEN AudioUnspecified(EaTime, c.data)
    ELSE phase = "failed" \/ ConfigTooWide      \* finish: a configured value that fits no field (C16)

(* Error variants of muxide::api::MuxerError, mapped to contract classes by  *)
(* name.  Io stands for the DurationOverflow mapping (and sink errors, C13). *)
ClassOf(variant) ==
    CASE variant = "AlreadyFinished" -> "Finished"
      [] variant = "EmptyVideoFrame" -> "EmptyVideo"
      [] variant \in {"InvalidVideoPts", "InvalidVideoDts", "NegativeVideoPts", "NegativeVideoDts"} -> "BadTimeV"
      [] variant \in {"NonIncreasingVideoPts", "NonIncreasingDts"} -> "VideoOrder"
      [] variant = "FirstVideoFrameMustBeKeyframe" -> "FirstKey"
      [] variant \in {"FirstVideoFrameMissingSpsPps", "FirstAv1FrameMissingSequenceHeader",
                      "FirstVp9FrameMissingSequenceHeader"} -> "FirstConfig"
      [] variant = "AudioNotConfigured" -> "AudioNotConfigured"
      [] variant \in {"InvalidAudioPts", "NegativeAudioPts"} -> "BadTimeA"
      [] variant = "EmptyAudioFrame" -> "EmptyAudio"
      [] variant = "DecreasingAudioPts" -> "AudioOrder"
      [] variant = "AudioBeforeFirstVideo" -> "AudioBeforeVideo"
      [] variant \in {"InvalidAdts", "InvalidAdtsDetailed", "InvalidOpusPacket"} -> "BadAudioFraming"
      [] variant = "Io" -> "GapTooLarge"
      [] variant = "MissingVideoConfig" -> "MissingVideo"
      [] OTHER -> "Unknown"

(* Three-valued legality of an observed outcome. *)
Legal(c, ok, variant) ==
    IF CallUnspecified(c) THEN TRUE
    ELSE IF CallViolated(c) = {} THEN ok
    ELSE ~ok /\ ClassOf(variant) \in CallViolated(c)

(* The specific codec-configuration variant must match the configured codec. *)
VariantFitsCodec(variant) ==
    /\ variant = "FirstVideoFrameMissingSpsPps" => cfg.vc \in {"h264", "h265"}
    /\ variant = "FirstAv1FrameMissingSequenceHeader" => cfg.vc = "av1"
    /\ variant = "FirstVp9FrameMissingSequenceHeader" => cfg.vc = "vp9"
    /\ variant \in {"InvalidAdts", "InvalidAdtsDetailed"} => cfg.ac = "aac"
    /\ variant = "InvalidOpusPacket" => cfg.ac = "opus"

-----------------------------------------------------------------------------
(* State changes.  A rejected call changes nothing (C05) except where a      *)
(* deviation switch says the pinned tree did.                               *)

PatchLast(s, dt) == IF s = << >> THEN s ELSE [s EXCEPT ![Len(s)].dur = dt - s[Len(s)].dt]

Sample(presT, decT, stored, key, src) ==
    [p3 |-> S3(presT), d3 |-> S3(decT), pt |-> Tk(presT), dt |-> Tk(decT),
     data |-> stored, key |-> key, dur |-> None, src |-> src]

AcceptVideo(presT, decT, data, key) ==
    /\ v' = Append(PatchLast(v, Tk(decT)), Sample(presT, decT, Stored(cfg.vc, data), key, data))
    /\ shadow' = [shadow EXCEPT !.firstV = IF @ = None THEN S3(presT) ELSE @]
    /\ UNCHANGED a

AcceptAudio(presT, data) ==
    /\ a' = Append(PatchLast(a, Tk(presT)), Sample(presT, presT, StoredA(cfg.ac, data), FALSE, data))
    /\ UNCHANGED << v, shadow >>

(* What the pinned tree did on some rejected calls (deviation switches). *)
RejectVideo(presT, viol) ==
    /\ shadow' = IF "FirstPtsBeforeInnerWrite" \in Dev /\ shadow.firstV = None
                    /\ viol \subseteq {"FirstKey", "FirstConfig", "GapTooLarge"} /\ viol # {}
                 THEN [shadow EXCEPT !.firstV = S3(presT)] ELSE shadow
    /\ UNCHANGED << v, a >>

RejectAudio(presT, viol) ==
    /\ a' = IF "BackpatchBeforeValidate" \in Dev /\ viol = {"BadAudioFraming"} /\ a # << >>
            THEN PatchLast(a, Tk(presT)) ELSE a
    /\ UNCHANGED << v, shadow >>

(* One step of a frame-writing call with a given outcome. *)
DoWrite(c, ok, variant) ==
    /\ phase' = phase /\ sunk' = sunk /\ cfg' = cfg
    /\ res' = [ok |-> ok, variant |-> variant]
    /\ IF c.op = "wv" THEN
            /\ IF ok THEN AcceptVideo(c.pts, c.pts, c.data, c.key) ELSE RejectVideo(c.pts, CallViolated(c))
            /\ UNCHANGED << clockV, clockA >>
       ELSE IF c.op = "wvd" THEN
            /\ IF ok THEN AcceptVideo(c.pts, c.dts, c.data, c.key) ELSE RejectVideo(c.pts, CallViolated(c))
            /\ UNCHANGED << clockV, clockA >>
       ELSE IF c.op = "ev" THEN
            /\ IF ok THEN AcceptVideo(EvTime, EvTime, c.data, DetectKey(cfg.vc, c.data, Len(v)))
                     ELSE RejectVideo(EvTime, CallViolated(c))
            /\ clockV' = IF ok THEN clockV + c.ms * (IF cfg.mode = "third" THEN 270 ELSE 90) ELSE clockV
            /\ UNCHANGED clockA
       ELSE IF c.op = "wa" THEN
            /\ IF ok THEN AcceptAudio(c.pts, c.data) ELSE RejectAudio(c.pts, CallViolated(c))
            /\ UNCHANGED << clockV, clockA >>
       ELSE \* ea
            /\ IF ok THEN AcceptAudio(EaTime, c.data) ELSE RejectAudio(EaTime, CallViolated(c))
            /\ clockA' = IF ok THEN clockA + (c.n * (IF cfg.mode = "third" THEN 270000 ELSE 90000)) \div cfg.rate
                         ELSE clockA
            /\ UNCHANGED clockV

(* Finish: `written` is the number of bytes that reached the sink. *)
DoFinish(c, ok, variant, written) ==
    /\ cfg' = cfg /\ UNCHANGED << v, a, clockV, clockA, shadow >>
    /\ res' = [ok |-> ok, variant |-> variant]
    /\ sunk' = sunk + written
    /\ phase' = IF phase \in {"finished", "gone"} THEN phase
                ELSE IF c.how \in {"finish", "finish_with_stats", "flush"} THEN
                        (IF ok THEN "gone" ELSE "gone")
                ELSE IF ok THEN "finished"
                ELSE IF variant = "Io" THEN "failed" ELSE phase

-----------------------------------------------------------------------------
(***************************************************************************)
(* Declarative properties of a finished file, as predicates over (accepted  *)
(* samples, file projection).  A projection F has the shape produced by     *)
(* the independent reader: F.len, F.top, F.mdat, F.tracks[t] with           *)
(*   n, ctts, mdur, s[i] = [o, z, k, d, c, b].                              *)
(* Each operator returns a set of signatures <<property, predicate, site,   *)
(* class>>; the empty set means the property holds on this file.            *)
(***************************************************************************)
Sig(p, q, site, cls) == << p, q, site, cls >>

NSamp(T) == Len(T.s)
HasOZ(s) == "o" \in DOMAIN s /\ "z" \in DOMAIN s

(* ---- C01 ---- *)
BytesClass(S, T, i) ==
    IF "oob" \in DOMAIN T.s[i] THEN "out-of-file"
    ELSE IF \E j \in 1..Len(S) : j # i /\ T.s[i].b = S[j].data THEN "other-sample"
    ELSE "corrupt"

C01Track(S, T, site) ==
    LET n == IF Len(S) < NSamp(T) THEN Len(S) ELSE NSamp(T) IN
         (IF T.n # Len(S) \/ NSamp(T) # Len(S) THEN {Sig("C01", "SampleCount", site, "count")} ELSE {})
    \cup (IF ~T.complete THEN {Sig("C01", "SampleCount", site, "tables-inconsistent")} ELSE {})
    \cup UNION { IF "unres" \in DOMAIN T.s[i] THEN {Sig("C01", "SampleBytes", site, "unresolved")}
                 ELSE IF "b" \notin DOMAIN T.s[i] /\ "oob" \notin DOMAIN T.s[i] THEN {}
                 ELSE IF "b" \in DOMAIN T.s[i] /\ T.s[i].b = S[i].data THEN {}
                 ELSE {Sig("C01", "SampleBytes", site, BytesClass(S, T, i))} : i \in 1..n }
    \cup (IF site = "video" /\ \E i \in 1..n : T.s[i].k # S[i].key
          THEN {Sig("C01", "SampleKey", site, "flag")} ELSE {})

RangesOf(F) == UNION { { << t, i >> : i \in { j \in 1..NSamp(F.tracks[t]) : HasOZ(F.tracks[t].s[j]) } }
                       : t \in 1..Len(F.tracks) }
RO(F, r) == F.tracks[r[1]].s[r[2]].o
RZ(F, r) == F.tracks[r[1]].s[r[2]].z

(* Tiling, decided on the ranges sorted by offset (linear after sorting): the first non-empty range   *)
(* starts at the mdat payload, each next one starts where the previous one ends, the last one ends at *)
(* the end of the payload; zero-length ranges only have to lie inside.                               *)
C01Tiling(F) ==
    LET R == RangesOf(F)
        ne == { r \in R : RZ(F, r) > 0 }
        rs == SortSeq(SetToSeq(ne), LAMBDA x, y : RO(F, x) < RO(F, y) \/ (RO(F, x) = RO(F, y) /\ (x[1] < y[1] \/ (x[1] = y[1] /\ x[2] < y[2]))))
        n == Len(rs)
    IN
    IF Len(F.mdat) > 1 THEN {Sig("C01", "MdatTiling", "file", "several-mdat")}
    ELSE IF Len(F.mdat) = 0 THEN (IF R = {} THEN {} ELSE {Sig("C01", "MdatTiling", "file", "no-mdat")})
    ELSE LET po == F.mdat[1].po  pl == F.mdat[1].pl IN
         (IF \E r \in R : RO(F, r) < po \/ RO(F, r) + RZ(F, r) > po + pl
          THEN {Sig("C01", "MdatTiling", "file", "outside-mdat")} ELSE {})
    \cup (IF \E k \in 1..(n - 1) : RO(F, rs[k + 1]) < RO(F, rs[k]) + RZ(F, rs[k])
          THEN {Sig("C01", "MdatTiling", "file", "overlap")} ELSE {})
    \cup (IF (n = 0 /\ pl # 0) \/ (n > 0 /\ (RO(F, rs[1]) > po \/ RO(F, rs[n]) + RZ(F, rs[n]) < po + pl))
             \/ (\E k \in 1..(n - 1) : RO(F, rs[k + 1]) > RO(F, rs[k]) + RZ(F, rs[k]))
          THEN {Sig("C01", "MdatTiling", "file", "not-covered")} ELSE {})

(* ---- C03 ---- *)
ExpDur(S, i) == IF i < Len(S) THEN S[i+1].dt - S[i].dt
                ELSE IF Len(S) >= 2 THEN S[i].dt - S[i-1].dt ELSE None
ExpCts(S, i) == S[i].pt - S[i].dt
Wide(S, i) == S[i].pt = SAT \/ S[i].dt = SAT \/ ExpCts(S, i) > cfg.i32
              \/ -ExpCts(S, i) > (IF "i32n" \in DOMAIN cfg THEN cfg.i32n ELSE cfg.i32)

(* a ctts / stts that stops short of the sample count leaves samples without the field *)
SCts(T, i) == IF "c" \in DOMAIN T.s[i] THEN T.s[i].c ELSE 0
SDur(T, i) == IF "d" \in DOMAIN T.s[i] THEN T.s[i].d ELSE 0
C03Track(S, T, site) ==
    LET n == IF Len(S) < NSamp(T) THEN Len(S) ELSE NSamp(T)
        timed == \A i \in 1..n : "d" \in DOMAIN T.s[i]
    IN
    IF ~timed THEN {Sig("C03", "Duration", site, "stts-short")}
    ELSE
         (IF \E i \in 1..n : ExpDur(S, i) # None /\ T.s[i].d # ExpDur(S, i)
          THEN {Sig("C03", "Duration", site,
                    IF \E i \in 1..(n-1) : T.s[i].d # ExpDur(S, i) THEN "inner" ELSE "last")} ELSE {})
    \cup (IF \E i \in 1..n : ExpDur(S, i) # None /\ "dr" \in DOMAIN T.s[i] /\ T.s[i].dr # 0
          THEN {Sig("C03", "Duration", site, "off-grid")} ELSE {})
    \cup (IF \E i \in 1..n : "c" \notin DOMAIN T.s[i] THEN {Sig("C03", "CompositionOffset", site, "ctts-short")}
          ELSE IF \E i \in 1..n : ~Wide(S, i) /\ T.s[i].c # ExpCts(S, i)
          THEN {Sig("C03", "CompositionOffset", site, "value")} ELSE {})
    \cup (IF (\A i \in 1..n : ~Wide(S, i)) /\ T.ctts # (\E i \in 1..n : ExpCts(S, i) # 0)
          THEN {Sig("C03", "CttsPresence", site, IF T.ctts THEN "spurious" ELSE "missing")} ELSE {})
    \cup (IF n = NSamp(T) /\ T.mdur # SumSeq([i \in 1..n |-> T.s[i].d]) /\ SumSeq([i \in 1..n |-> T.s[i].d]) <= cfg.w32dur
          THEN {Sig("C03", "MediaDuration", site, "mdhd")} ELSE {})

(* ---- C16: no field is silently truncated ---- *)
(* Evaluated on every successfully finished file.  In ordinary instances (unit 1) no boundary is  *)
(* in reach and only the consistency clause (movie duration vs. tables) can fire; in boundary      *)
(* instances (numeric embedding, DESIGN.md 2.4) values are logged as quotient/remainder w.r.t. the *)
(* unit and the thresholds cfg.w32 / cfg.i32 / cfg.w32dur are floor(field max / unit).             *)
SumDur(S) == SumSeq([i \in 1..Len(S) |-> IF ExpDur(S, i) = None THEN 0 ELSE ExpDur(S, i)])
C16Track(S, T, site) ==
    LET n == IF Len(S) < NSamp(T) THEN Len(S) ELSE NSamp(T) IN
         (IF SumDur(S) > cfg.w32dur THEN {Sig("C16", "FieldsFit", site, "media-duration-exceeds-32-bit-field")} ELSE {})
    \cup (IF \E i \in 1..n : S[i].pt # SAT /\ S[i].dt # SAT
                              /\ (ExpCts(S, i) > cfg.i32 \/ -ExpCts(S, i) > (IF "i32n" \in DOMAIN cfg THEN cfg.i32n ELSE cfg.i32))
          THEN {Sig("C16", "FieldsFit", site, "composition-offset-exceeds-32-bit-field")} ELSE {})
    \cup (IF \E i \in 1..n : S[i].pt = SAT \/ S[i].dt = SAT
          THEN {Sig("C16", "FieldsFit", site, "timestamp-saturated-by-seconds-to-ticks-cast")} ELSE {})
    \cup (IF \E i \in 1..n : ExpDur(S, i) # None /\ ExpDur(S, i) > cfg.w32
          THEN {Sig("C16", "FieldsFit", site, "sample-delta-exceeds-32-bit-field")} ELSE {})
    \cup (IF \E i \in 1..n : (ExpDur(S, i) # None /\ ExpDur(S, i) <= cfg.w32 /\ "dr" \in DOMAIN T.s[i] /\ T.s[i].dr # 0)
                              \/ (~Wide(S, i) /\ "cr" \in DOMAIN T.s[i] /\ T.s[i].cr # 0)
          THEN {Sig("C16", "FieldsFit", site, "value-off-grid")} ELSE {})
    \cup (IF Len(S) >= 2 /\ SumDur(S) <= cfg.w32dur /\ "mdurr" \in DOMAIN T /\ T.mdurr # 0 THEN {Sig("C16", "FieldsFit", site, "media-duration-off-grid")} ELSE {})

(* movie duration (movie timescale 1000) vs. the longest track, ordinary instances only *)
C16Movie(F) ==
    IF cfg.mode # "third" \/ ~("mvdur" \in DOMAIN F) \/ ~("tracks" \in DOMAIN F) THEN {}
    ELSE LET durs == { F.tracks[t].mdur : t \in 1..Len(F.tracks) }
             longest == IF durs = {} THEN 0 ELSE MaxOf(durs)
         IN IF F.mvts = 1000 /\ Abs(MulSat(F.mvdur, 90) - longest) > 90
            THEN {Sig("C16", "MovieDuration", "mvhd", IF MulSat(F.mvdur, 90) < longest THEN "shorter-than-longest-track" ELSE "longer-than-longest-track")}
            ELSE {}

(* ---- C15 ---- *)
Reordered(S) == \E i \in 1..Len(S) : S[i].pt # S[i].dt
(* Content side of C15 ("stored in the media data in ... order"): read the media data in offset order and cut it *)
(* into the accepted payloads; when it IS a concatenation of exactly those payloads but in another order than the *)
(* merge by timestamp (video first on ties), the samples are stored out of order even if every table is right.    *)
(* Anything that is not such a rearrangement (altered bytes, missing samples) is C01's business, not reported here. *)
RECURSIVE ParsePerm(_, _, _, _)
ParsePerm(cat, p, E, used) ==          \* the order (indices of E) in which cat from position p on spells the unused payloads; << 0 >> if it does not
    IF Cardinality(used) = Len(E) THEN (IF p = Len(cat) + 1 THEN << >> ELSE << 0 >>)
    ELSE LET cand == { k \in (1..Len(E)) \ used : Slice(cat, p, p + Len(E[k]) - 1) = E[k] /\ p + Len(E[k]) - 1 <= Len(cat) } IN
         IF cand = {} THEN << 0 >>
         ELSE LET k == CHOOSE x \in cand : \A y \in cand : x <= y
                  rest == ParsePerm(cat, p + Len(E[k]), E, used \cup {k}) IN
              IF rest = << 0 >> THEN << 0 >> ELSE << k >> \o rest
C15Content(F) ==
    IF ~cfg.facets.bytes \/ Len(F.tracks) < 2 \/ Reordered(v) THEN {}
    ELSE LET TV == F.tracks[1]  TA == F.tracks[2]
             okv == NSamp(TV) = Len(v) /\ \A i \in 1..NSamp(TV) : HasOZ(TV.s[i]) /\ "b" \in DOMAIN TV.s[i]
             oka == NSamp(TA) = Len(a) /\ \A j \in 1..NSamp(TA) : HasOZ(TA.s[j]) /\ "b" \in DOMAIN TA.s[j]
         IN IF ~okv \/ ~oka \/ Len(v) + Len(a) > 40 THEN {}
            ELSE LET ent == [k \in 1..(Len(v) + Len(a)) |->
                               IF k <= Len(v) THEN [t |-> v[k].pt, kind |-> 0, i |-> k, d |-> v[k].data, o |-> TV.s[k].o, b |-> TV.s[k].b]
                               ELSE [t |-> a[k - Len(v)].pt, kind |-> 1, i |-> k - Len(v), d |-> a[k - Len(v)].data, o |-> TA.s[k - Len(v)].o, b |-> TA.s[k - Len(v)].b]]
                     before(x, y) == x.t < y.t \/ (x.t = y.t /\ (x.kind < y.kind \/ (x.kind = y.kind /\ x.i < y.i)))
                     exp == SortSeq(ent, before)                                  \* merge order by timestamp, video first on ties
                     byoff == SortSeq(ent, LAMBDA x, y : x.o < y.o \/ (x.o = y.o /\ before(x, y)))
                     nonempty == SelectSeq(exp, LAMBDA x : x.d # << >>)
                     E == [k \in 1..Len(nonempty) |-> nonempty[k].d]
                     cat == Concat([k \in 1..Len(byoff) |-> byoff[k].b])
                     order == ParsePerm(cat, 1, E, {})
                 IN IF order # << 0 >> /\ order # [k \in 1..Len(E) |-> k] THEN {Sig("C15", "MergeOrder", "file", "payloads-out-of-order")} ELSE {}

C15Sigs(F) ==
    C15Content(F) \cup
    LET TV == F.tracks[1]
        mono(T, site) == IF \E i \in 1..(NSamp(T) - 1) : HasOZ(T.s[i]) /\ HasOZ(T.s[i+1]) /\ T.s[i+1].o <= T.s[i].o
                         THEN {Sig("C15", "TrackOrder", site, "decreasing")} ELSE {}
    IN
    mono(TV, "video")
    \cup (IF Len(F.tracks) >= 2 THEN
            LET TA == F.tracks[2] IN
            mono(TA, "audio")
            \cup (IF ~Reordered(v) /\ NSamp(TV) = Len(v) /\ NSamp(TA) = Len(a)
                     /\ \E i \in 1..Len(v), j \in 1..Len(a) :
                           /\ HasOZ(TV.s[i]) /\ HasOZ(TA.s[j])
                           /\ IF v[i].pt <= a[j].pt THEN TV.s[i].o >= TA.s[j].o ELSE TA.s[j].o >= TV.s[i].o
                  THEN {Sig("C15", "MergeOrder", "file", "not-by-time")} ELSE {})
          ELSE {})

(* ---- C09 ---- *)
(* Presentation time (ticks) of sample i of file track T: edit list start     *)
(* offset + sum of earlier durations + composition offset.                    *)
StartOf(T) ==
    IF "elst" \notin DOMAIN T \/ T.elst = << >> THEN 0
    ELSE LET e1 == T.elst[1] IN
         IF e1.empty THEN MulSat(e1.sd, 90)                                        \* empty edit: movie timescale 1000 -> ticks
                          - (IF Len(T.elst) >= 2 THEN T.elst[2].mt ELSE 0)
         ELSE - e1.mt
Pres(T, i) == Sat(Sat(StartOf(T) + SumSeq([k \in 1..(i-1) |-> SDur(T, k)])) + SCts(T, i))

C09Sigs(F) ==
    IF Len(F.tracks) < 2 \/ v = << >> \/ a = << >> \/ cfg.mode = "d32" THEN {}
    ELSE LET TV == F.tracks[1]  TA == F.tracks[2]
             n == IF Len(a) < NSamp(TA) THEN Len(a) ELSE NSamp(TA)
             ok == NSamp(TV) >= 1 /\ "d" \in DOMAIN TV.s[1] /\ \A j \in 1..n : "d" \in DOMAIN TA.s[j]
             err(j) == MulSat(Sat(Pres(TA, j) - Pres(TV, 1)), UnitsPerTick) - (a[j].p3 - v[1].p3)
         IN IF ~ok \/ v[1].pt = SAT \/ (\E j \in 1..n : a[j].pt = SAT) THEN {}
            ELSE IF \A j \in 1..n : Abs(err(j)) <= UnitsPerTick THEN {}
            ELSE IF \A j \in 1..n : Abs(err(j) - err(1)) <= 2 * UnitsPerTick
                 THEN {Sig("C09", "SyncPreserved", "audio",
                           \* the recorded finding is exactly this: both timelines start at 0 (no edit list), so every audio
                           \* sample is off by (decode time of the first video frame - first audio time); any other constant
                           \* is a different defect
                           IF StartOf(TV) = 0 /\ StartOf(TA) = 0 /\ "elst" \notin DOMAIN TV /\ "elst" \notin DOMAIN TA
                              /\ Abs(err(1) - (v[1].d3 - a[1].p3)) <= 2 * UnitsPerTick
                           THEN "no-start-offset" ELSE "start-offset-wrong")}
                 ELSE {Sig("C09", "SyncPreserved", "audio", "timeline")}

(* ---- C06 (statistics part) ---- *)
EndOf(S, i) == S[i].pt + (IF ExpDur(S, i) = None THEN 0 ELSE ExpDur(S, i))
MaxEnd == LET E == { EndOf(v, i) : i \in 1..Len(v) } \cup { EndOf(a, j) : j \in 1..Len(a) }
          IN IF E = {} THEN 0 ELSE MaxOf(E)
AnySat == (\E i \in 1..Len(v) : v[i].pt = SAT \/ v[i].dt = SAT) \/ (\E j \in 1..Len(a) : a[j].pt = SAT)

C06Stats(st, written) ==
         (IF st.v # Len(v) THEN {Sig("C06", "StatsFrames", "video", "count")} ELSE {})
    \cup (IF st.a # Len(a) THEN {Sig("C06", "StatsFrames", "audio", "count")} ELSE {})
    \cup (IF st.bytes # written THEN {Sig("C06", "StatsBytes", "finish", "bytes")} ELSE {})
    \cup (IF ~AnySat /\ cfg.mode # "d32" /\ Abs(st.dur - UnitsPerTick * MaxEnd) > UnitsPerTick
          THEN {Sig("C06", "StatsDuration", "finish",
                    IF st.dur < UnitsPerTick * MaxEnd THEN "short" ELSE "long")} ELSE {})

=============================================================================
