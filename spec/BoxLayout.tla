------------------------------ MODULE BoxLayout ------------------------------
(* Fixed-layout boxes and configuration records as field tables. (stub, grows) *)
EXTENDS Bytes

RawSigsFile(F, cfg, v, a) == {}
RawSigsSegment(S, cfg, q) == {}
RawSigsInit(F, cfg) == {}

=============================================================================
