------------------------------ MODULE BoxLayout ------------------------------
(***************************************************************************)
(* Fixed-layout boxes and decoder-configuration records as field tables     *)
(* (ISO/IEC 14496-12 header boxes, 14496-14 esds, 14496-15 avcC/hvcC, the   *)
(* AV1 / VP9 / Opus ISO-BMFF bindings), and the predicates that compare     *)
(* the raw payload bytes reported by the independent reader with them.      *)
(* Properties C19 (layout), C07 (configuration content), C18 (metadata).    *)
(*                                                                          *)
(* A field is <<name, offset (0-based in the payload), width, want>> where  *)
(* want is a byte sequence that must be found there, or << >> (not judged). *)
(* Multi-byte values are compared as byte sequences, never decoded, so      *)
(* 32-bit quantities are safe under TLC's 32-bit integers.                  *)
(***************************************************************************)
EXTENDS Bytes, AnnexB, Av1Seq, Vp9Hdr, TLC

LSig(p, q, site, cls) == << p, q, site, cls >>

TooLong(u) == Len(u) > 65535
Zeros(n) == [i \in 1..n |-> 0]
Fld(name, off, w, want) == << name, off, w, want >>
At(b, off, w) == Slice(b, off + 1, off + w)           \* bytes [off, off+w) of a payload, 0-based offset

IdentityMatrix == << 0,1,0,0 >> \o Zeros(12) \o << 0,1,0,0 >> \o Zeros(12) \o << 64,0,0,0 >>

(* Generic check: size, then every judged field that lies inside the payload *)
FieldTableSigs(prop, site, b, size, fields) ==
         (IF size # -1 /\ Len(b) # size THEN {LSig(prop, "BoxLayout", site, ToString(<< "size", Len(b) >>))} ELSE {})
    \cup { LSig(prop, "BoxLayout", site, f[1]) :
             f \in { g \in { fields[i] : i \in 1..Len(fields) } :
                       g[4] # << >> /\ (g[2] + g[3] > Len(b) \/ At(b, g[2], g[3]) # g[4]) } }

(* ---- raw lookup ---- *)
RawIdx(F, path) == { i \in 1..Len(F.raw) : F.raw[i].p = path }
HasRaw(F, path) == RawIdx(F, path) # {}
RawB(F, path) == LET r == F.raw[MinOf(RawIdx(F, path))] IN IF "b" \in DOMAIN r THEN r.b ELSE r.pre

(* ---- ISO/IEC 14496-12 ---- *)
(* Header boxes exist in version 0 (32-bit times) and version 1 (64-bit times); both are conforming. *)
(* The tables take the version found in the first payload byte; sizes: mvhd 100 / 112, tkhd 84 / 96,  *)
(* mdhd 24 / 36.                                                                                     *)
Ver(b) == IF Len(b) >= 1 /\ b[1] = 1 THEN 1 ELSE 0
MvhdSize(b) == IF Ver(b) = 1 THEN 112 ELSE 100
TkhdSize(b) == IF Ver(b) = 1 THEN 96 ELSE 84
MdhdSize(b) == IF Ver(b) = 1 THEN 36 ELSE 24
MvhdNextIdOff(b) == IF Ver(b) = 1 THEN 108 ELSE 96

MvhdFieldsV(b, timescale) ==
    LET x == IF Ver(b) = 1 THEN 12 ELSE 0 IN <<
    Fld("version", 0, 1, << Ver(b) >>), Fld("flags", 1, 3, Zeros(3)),
    Fld("timescale", 12 + (IF Ver(b) = 1 THEN 8 ELSE 0), 4, BE32(timescale)),
    Fld("rate", 20 + x, 4, << 0,1,0,0 >>), Fld("volume", 24 + x, 2, << 1,0 >>), Fld("reserved", 26 + x, 10, Zeros(10)),
    Fld("matrix", 36 + x, 36, IdentityMatrix), Fld("pre_defined", 72 + x, 24, Zeros(24)) >>
MvhdFields(timescale) == MvhdFieldsV(<< 0 >>, timescale)

TkhdFieldsV(b, id, w, h, audio) ==
    LET x == IF Ver(b) = 1 THEN 12 ELSE 0
        idoff == IF Ver(b) = 1 THEN 20 ELSE 12 IN <<
    Fld("version", 0, 1, << Ver(b) >>), Fld("track_ID", idoff, 4, BE32(id)), Fld("reserved-a", idoff + 4, 4, Zeros(4)),
    Fld("reserved-b", 24 + x, 8, Zeros(8)), Fld("reserved-c", 38 + x, 2, Zeros(2)),
    Fld("volume", 36 + x, 2, IF audio THEN << 1, 0 >> ELSE << 0, 0 >>),
    Fld("matrix", 40 + x, 36, IdentityMatrix),
    Fld("width", 76 + x, 4, IF audio THEN Zeros(4) ELSE BE16(w) \o << 0, 0 >>),
    Fld("height", 80 + x, 4, IF audio THEN Zeros(4) ELSE BE16(h) \o << 0, 0 >>) >>
TkhdFields(id, w, h, audio) == TkhdFieldsV(<< 0 >>, id, w, h, audio)

MdhdFieldsV(b, timescale) == <<
    Fld("version", 0, 1, << Ver(b) >>), Fld("flags", 1, 3, Zeros(3)),
    Fld("timescale", IF Ver(b) = 1 THEN 20 ELSE 12, 4, BE32(timescale)),
    Fld("pre_defined", IF Ver(b) = 1 THEN 34 ELSE 22, 2, Zeros(2)) >>
MdhdFields(timescale) == MdhdFieldsV(<< 0 >>, timescale)

(* the name of a handler box is ONE null-terminated string that ends the box: the terminator is the last byte and the only zero *)
HdlrNameBad(b) == Len(b) < 25 \/ b[Len(b)] # 0 \/ \E i \in 25..(Len(b) - 1) : b[i] = 0
HdlrFields(handler) == <<
    Fld("version-flags", 0, 4, Zeros(4)), Fld("pre_defined", 4, 4, Zeros(4)), Fld("handler_type", 8, 4, handler),
    Fld("reserved", 12, 12, Zeros(12)) >>

VisualEntryFields(w, h) == <<
    Fld("reserved", 0, 6, Zeros(6)), Fld("data_reference_index", 6, 2, << 0, 1 >>), Fld("pre_defined-a", 8, 2, Zeros(2)),
    Fld("reserved-b", 10, 2, Zeros(2)), Fld("pre_defined-c", 12, 12, Zeros(12)),
    Fld("width", 24, 2, BE16(w)), Fld("height", 26, 2, BE16(h)),
    Fld("horizresolution", 28, 4, << 0, 72, 0, 0 >>), Fld("vertresolution", 32, 4, << 0, 72, 0, 0 >>),
    Fld("reserved-d", 36, 4, Zeros(4)), Fld("frame_count", 40, 2, << 0, 1 >>),
    Fld("depth", 74, 2, << 0, 24 >>), Fld("pre_defined-e", 76, 2, << 255, 255 >>) >>

AudioEntryFields(ch, rate) == <<
    Fld("reserved", 0, 6, Zeros(6)), Fld("data_reference_index", 6, 2, << 0, 1 >>), Fld("reserved-b", 8, 8, Zeros(8)),
    Fld("channelcount", 16, 2, BE16(ch)), Fld("samplesize", 18, 2, << 0, 16 >>), Fld("pre_defined", 20, 2, Zeros(2)),
    Fld("reserved-c", 22, 2, Zeros(2)),
    Fld("samplerate", 24, 4, IF rate < 65536 THEN BE16(rate) \o << 0, 0 >> ELSE << >>) >>

Chars(s) == s     \* handler types are given as byte sequences below
VIDE == << 118, 105, 100, 101 >>
SOUN == << 115, 111, 117, 110 >>

(* enabled flag: bit 0 of the 24-bit flags *)
TkhdEnabled(b) == Len(b) >= 4 /\ b[4] % 2 = 1

(* ---- ISO/IEC 14496-15: avcC / hvcC ---- *)
AvcCExpected(sps, pps) ==
    << 1, sps[2], sps[3], sps[4], 255, 225 >> \o BE16(Len(sps)) \o sps \o << 1 >> \o BE16(Len(pps)) \o pps

AvcCSigs(prop, site, b, sps, pps) ==
    IF Len(sps) > 65535 \/ Len(pps) > 65535 THEN {}      \* lengths cannot be stored: C16
    ELSE IF Len(b) < 8 THEN {LSig(prop, "AvcC", site, "truncated")}
    ELSE (IF b[1] # 1 THEN {LSig(prop, "AvcC", site, "version")} ELSE {})
    \cup (IF Len(sps) >= 4 /\ At(b, 1, 3) # << sps[2], sps[3], sps[4] >> THEN {LSig(prop, "AvcC", site, "profile-level")} ELSE {})   \* shorter SPS: bytes not judged
    \cup (IF b[5] # 255 \/ b[6] # 225 THEN {LSig(prop, "AvcC", site, "reserved-bits")} ELSE {})
    \cup (IF At(b, 6, 2 + Len(sps)) # BE16(Len(sps)) \o sps THEN {LSig(prop, "AvcC", site, "sps")} ELSE {})
    \cup (IF At(b, 8 + Len(sps), 3 + Len(pps)) # << 1 >> \o BE16(Len(pps)) \o pps THEN {LSig(prop, "AvcC", site, "pps")} ELSE {})

(* ISO/IEC 14496-15 5.3.3.1.2: for the High profiles (profile_idc 100, 110, 122, 144) the record continues *)
(* after the picture parameter sets with 6+2 bits chroma_format, 5+3 bits bit_depth_luma_minus8, 5+3 bits  *)
(* bit_depth_chroma_minus8 (reserved bits all ones) and a count of SPS extensions; for the other profiles  *)
(* it ends there.  The values of the three fields are not judged (that needs the SPS payload decoded).     *)
AvcHighProfiles == {100, 110, 122, 144}
AvcCTailSigs(prop, site, b, sps, pps) ==
    IF Len(sps) > 65535 \/ Len(pps) > 65535 \/ Len(sps) < 4 \/ Len(b) < 11 + Len(sps) + Len(pps) THEN {}
    ELSE LET ext == Slice(b, 12 + Len(sps) + Len(pps), Len(b)) IN
         IF sps[2] \in AvcHighProfiles THEN
              IF ext = << >> THEN {LSig(prop, "AvcC", site, "high-profile-extension-absent")}
              ELSE IF Len(ext) < 4 \/ ext[1] < 252 \/ ext[2] < 248 \/ ext[3] < 248 \/ (ext[4] = 0 /\ Len(ext) # 4)
                   THEN {LSig(prop, "AvcC", site, "high-profile-extension-malformed")} ELSE {}
         ELSE IF ext # << >> THEN {LSig(prop, "AvcC", site, "trailing-bytes")} ELSE {}

(* hvcC arrays: parse from offset 22 (0-based); returns sequence of [type, res, nals] or <<-1>> *)
RECURSIVE HvcNals(_, _, _)
HvcNals(b, p, n) ==      \* p: 1-based position, n: nal units left in this array
    IF n = 0 THEN [p |-> p, nals |-> << >>]
    ELSE IF p + 1 > Len(b) THEN [p |-> -1, nals |-> << >>]
    ELSE LET ln == U16(b, p) IN
         IF p + 1 + ln > Len(b) THEN [p |-> -1, nals |-> << >>]
         ELSE LET rest == HvcNals(b, p + 2 + ln, n - 1) IN
              IF rest.p = -1 THEN rest ELSE [p |-> rest.p, nals |-> << Slice(b, p + 2, p + 1 + ln) >> \o rest.nals]
RECURSIVE HvcArrays(_, _, _)
HvcArrays(b, p, k) ==
    IF k = 0 THEN [p |-> p, arrs |-> << >>]
    ELSE IF p + 2 > Len(b) THEN [p |-> -1, arrs |-> << >>]
    ELSE LET hd == b[p]  cnt == U16(b, p + 1)
             ns == HvcNals(b, p + 3, cnt) IN
         IF ns.p = -1 THEN [p |-> -1, arrs |-> << >>]
         ELSE LET rest == HvcArrays(b, ns.p, k - 1) IN
              IF rest.p = -1 THEN rest
              ELSE [p |-> rest.p, arrs |-> << [type |-> hd % 64, res |-> (hd \div 64) % 2, nals |-> ns.nals] >> \o rest.arrs]

HvcCSigs(prop, site, b, vps, sps, pps) ==
    IF Len(b) < 23 THEN {LSig(prop, "HvcC", site, "truncated")}
    ELSE LET arr == HvcArrays(b, 24, b[23])
             ofType(t) == { i \in 1..Len(arr.arrs) : arr.arrs[i].type = t }
             nalOK(t, u) == \E i \in ofType(t) : arr.arrs[i].nals = << u >>
         IN
         (IF b[1] # 1 THEN {LSig(prop, "HvcC", site, "version")} ELSE {})
    \cup (IF b[14] \div 16 # 15 \/ b[16] \div 4 # 63 \/ b[17] \div 4 # 63 \/ b[18] \div 8 # 31 \/ b[19] \div 8 # 31
          THEN {LSig(prop, "HvcC", site, "reserved-bits")} ELSE {})
    \cup (IF b[22] % 4 # 3 THEN {LSig(prop, "HvcC", site, "lengthSizeMinusOne")} ELSE {})
    \cup (IF Len(sps) >= 15 /\ (b[2] # sps[4] \/ b[13] # sps[15]) THEN {LSig(prop, "HvcC", site, "profile-tier-level")} ELSE {})
    \cup (IF arr.p = -1 \/ arr.p # Len(b) + 1 THEN {LSig(prop, "HvcC", site, "arrays-do-not-tile")}
          ELSE (IF \E i \in 1..Len(arr.arrs) : arr.arrs[i].res # 0 THEN {LSig(prop, "HvcC", site, "array-reserved-bit")} ELSE {})
          \cup (IF ~nalOK(32, vps) THEN {LSig(prop, "HvcC", site, "vps")} ELSE {})
          \cup (IF ~nalOK(33, sps) THEN {LSig(prop, "HvcC", site, "sps")} ELSE {})
          \cup (IF ~nalOK(34, pps) THEN {LSig(prop, "HvcC", site, "pps")} ELSE {}))

(* ---- AV1-ISOBMFF av1C ---- *)
Av1CSigs(prop, site, b, obu) ==       \* obu: the sequence header OBU as submitted
    LET r == ParseSeqHdr(LET o == ObuAt(obu, 1) IN Slice(obu, o.hdr + 1, o.total)) IN
    IF Len(b) < 4 THEN {LSig(prop, "Av1C", site, "truncated")}
    ELSE (IF b[1] # 129 THEN {LSig(prop, "Av1C", site, "marker-version")} ELSE {})
    \cup (IF r.ok /\ (b[2] # Av1CHeader(r)[2] \/ b[3] # Av1CHeader(r)[3])
          THEN {LSig(prop, "Av1C", site,
                     IF b[2] # Av1CHeader(r)[2] THEN "profile-level"
                     ELSE IF b[3] \div 128 # r.tier THEN "tier"
                     ELSE IF (b[3] \div 32) % 4 # r.hb * 2 + r.tb THEN "bit-depth"
                     ELSE IF b[3] % 4 # r.csp THEN (IF r.mono = 1 THEN "chroma-sample-position-of-monochrome" ELSE "chroma-sample-position")
                     ELSE "chroma")} ELSE {})
    \* byte 4: reserved(3) = 0, initial_presentation_delay_present(1), then the delay minus one or, when absent, reserved(4) = 0
    \cup (IF b[4] \div 32 # 0 \/ ((b[4] \div 16) % 2 = 0 /\ b[4] % 16 # 0) THEN {LSig(prop, "Av1C", site, "reserved-bits")} ELSE {})
    \cup (IF Slice(b, 5, Len(b)) # obu THEN {LSig(prop, "Av1C", site, "configOBUs")} ELSE {})

(* ---- VP9 binding vpcC: FullBox(version 1, flags 0) + 8-byte record ---- *)
VpcCSigs(prop, site, b, f) ==         \* f: Vp9Fields of the first key frame; level is not judged
    IF Len(b) # 12 THEN {LSig(prop, "VpcC", site, ToString(<< "size", Len(b) >>))}
    ELSE (IF At(b, 0, 4) # << 1, 0, 0, 0 >> THEN {LSig(prop, "VpcC", site, "fullbox-header")} ELSE {})
    \cup (IF b[5] # f.profile THEN {LSig(prop, "VpcC", site, "profile")} ELSE {})
    \cup (IF b[7] \div 16 # f.depth THEN {LSig(prop, "VpcC", site, "bit-depth")} ELSE {})
    \cup (IF b[7] % 2 # f.fr THEN {LSig(prop, "VpcC", site, "full-range")} ELSE {})
    \cup (IF At(b, 10, 2) # << 0, 0 >> THEN {LSig(prop, "VpcC", site, "codecInitializationDataSize")} ELSE {})

(* C07: the content of the record (FullBox form): profile, bit depth, range flag and the three colour bytes of *)
(* the first key frame; profiles 0 and 2 are 4:2:0 by definition (chromaSubsampling 0 or 1), for profiles 1 and 3 *)
(* the documented key-frame form does not carry the subsampling and the value is not judged.                      *)
VpcCContentSigs(prop, site, b, f) ==
    IF Len(b) # 12 THEN {}
    ELSE (IF b[5] # f.profile THEN {LSig(prop, "VpcCContent", site, "profile")} ELSE {})
    \cup (IF b[7] \div 16 # f.depth THEN {LSig(prop, "VpcCContent", site, "bit-depth")} ELSE {})
    \cup (IF b[8] # f.cs \/ b[9] # f.tf \/ b[10] # f.mc THEN {LSig(prop, "VpcCContent", site, "colour")} ELSE {})
    \cup (IF b[7] % 2 # f.fr THEN {LSig(prop, "VpcCContent", site, "full-range")} ELSE {})
    \cup (IF f.profile % 2 = 0 /\ (b[7] \div 2) % 8 \notin {0, 1} THEN {LSig(prop, "VpcCContent", site, "chroma-subsampling")} ELSE {})

(* what the pinned layout (8 plain bytes: version, profile, level, depth, cs, tf, mc, range) still lets us compare *)
VpcCPlainSigs(prop, site, b, f) ==
    IF Len(b) # 8 THEN {}
    ELSE (IF b[2] # f.profile THEN {LSig(prop, "VpcCContent", site, "profile")} ELSE {})
    \cup (IF b[4] # f.depth THEN {LSig(prop, "VpcCContent", site, "bit-depth")} ELSE {})
    \cup (IF b[5] # f.cs \/ b[6] # f.tf \/ b[7] # f.mc THEN {LSig(prop, "VpcCContent", site, "colour")} ELSE {})
    \cup (IF b[8] # f.fr THEN {LSig(prop, "VpcCContent", site, "full-range")} ELSE {})

(* ---- ISO/IEC 14496-14 esds ---- *)
SfiOf(rate) == CASE rate = 96000 -> 0 [] rate = 88200 -> 1 [] rate = 64000 -> 2 [] rate = 48000 -> 3 [] rate = 44100 -> 4
                 [] rate = 32000 -> 5 [] rate = 24000 -> 6 [] rate = 22050 -> 7 [] rate = 16000 -> 8 [] rate = 12000 -> 9
                 [] rate = 11025 -> 10 [] rate = 8000 -> 11 [] rate = 7350 -> 12 [] OTHER -> -1
ChanCfgOf(ch) == IF ch \in 1..6 THEN ch ELSE IF ch = 8 THEN 7 ELSE -1

(* AudioSpecificConfig (ISO/IEC 14496-3 1.6.2.1): number of bits the syntax needs for the object type found *)
(* in the first byte(s); 0 = cannot tell.  asc = the DecoderSpecificInfo payload.                              *)
AscBitsNeeded(asc) ==
    IF Len(asc) < 2 THEN 0
    ELSE LET aot == asc[1] \div 8
             sfi == (asc[1] % 8) * 2 + asc[2] \div 128
             base == 5 + 4 + (IF sfi = 15 THEN 24 ELSE 0) + 4
         IN IF aot = 31 \/ aot = 0 THEN 0
            ELSE IF aot \in {5, 29}             \* explicit SBR / PS signalling: extension sfi + inner object type + GASpecificConfig
                 THEN base + 4 + 5 + 3
            ELSE IF aot \in {1, 2, 3, 4, 6, 7, 17, 19, 20, 21, 22, 23} THEN base + 3   \* GASpecificConfig: 3 flag bits at least
            ELSE base

EsdsSigs(prop, site, b, rate, ch) ==
    IF Len(b) < 4 + 2 + 3 + 2 + 13 + 2 + 2 + 3 THEN {LSig(prop, "Esds", site, "truncated")}
    ELSE LET es == 5      \* 1-based position of the ES_Descriptor tag
             esLen == b[es + 1]
             dc == es + 5     \* DecoderConfigDescriptor tag
             dcLen == b[dc + 1]
             dsi == dc + 15   \* DecoderSpecificInfo tag
             dsiLen == b[dsi + 1]
             sl == dsi + 2 + dsiLen
         IN
         (IF At(b, 0, 4) # Zeros(4) THEN {LSig(prop, "Esds", site, "version-flags")} ELSE {})
    \cup (IF b[es] # 3 \/ b[dc] # 4 \/ b[dsi] # 5 THEN {LSig(prop, "Esds", site, "descriptor-tags")}
          ELSE (IF esLen >= 128 \/ dcLen >= 128 \/ dsiLen >= 128 THEN {}      \* multi-byte lengths: not produced, not judged
                ELSE (IF es + 1 + esLen # Len(b) THEN {LSig(prop, "Esds", site, "es-length")} ELSE {})
                \cup (IF dc + 1 + dcLen # dsi + 1 + dsiLen THEN {LSig(prop, "Esds", site, "decoder-config-length")} ELSE {})
                \cup (IF sl + 2 > Len(b) \/ b[sl] # 6 \/ b[sl + 1] # 1 \/ sl + 2 # Len(b)
                      THEN {LSig(prop, "Esds", site, "sl-config")} ELSE {})
                \cup (IF b[dc + 2] # 64 THEN {LSig(prop, "Esds", site, "objectTypeIndication")} ELSE {})
                \cup (IF b[dc + 3] # 21 THEN {LSig(prop, "Esds", site, "streamType")} ELSE {})
                \cup (LET asc == Slice(b, dsi + 2, dsi + 1 + dsiLen) IN
                      IF dsiLen >= 2 /\ asc[1] \div 8 = 0 THEN {LSig(prop, "Esds", site, "audio-object-type-null")}
                      ELSE IF dsiLen >= 2 /\ AscBitsNeeded(asc) > 8 * dsiLen THEN {LSig(prop, "Esds", site, "audio-specific-config-truncated")} ELSE {})
                \cup (IF dsiLen < 2 THEN {LSig(prop, "Esds", site, "asc-length")}
                      ELSE LET asc0 == b[dsi + 2]  asc1 == b[dsi + 3]
                               sfi == (asc0 % 8) * 2 + asc1 \div 128
                               cc == (asc1 \div 8) % 16
                           IN (IF SfiOf(rate) # -1 /\ sfi # SfiOf(rate) THEN {LSig("C07", "AudioConfig", site, "sampling-frequency-index")} ELSE {})
                           \cup (IF ChanCfgOf(ch) # -1 /\ cc # ChanCfgOf(ch) THEN {LSig("C07", "AudioConfig", site, "channel-configuration")} ELSE {}))))

(* ---- Opus in ISOBMFF: dOps ---- *)
DOpsSigs(prop, site, b, ch) ==
    IF Len(b) < 11 THEN {LSig(prop, "DOps", site, "truncated")}
    ELSE (IF b[1] # 0 THEN {LSig(prop, "DOps", site, "version")} ELSE {})
    \cup (IF b[2] # ch THEN {LSig("C07", "AudioConfig", site, "output-channel-count")} ELSE {})
    \cup (IF At(b, 4, 4) # << 0, 0, 187, 128 >> THEN {} ELSE {})          \* InputSampleRate is informational
    \cup (IF b[11] = 0 THEN (IF Len(b) # 11 THEN {LSig(prop, "DOps", site, "size")} ELSE {})
                            \cup (IF ch > 2 THEN {LSig(prop, "DOps", site, "family0-needs-mono-or-stereo")} ELSE {})
          ELSE IF Len(b) # 11 + 2 + b[2] THEN {LSig(prop, "DOps", site, "mapping-size")} ELSE {})

-----------------------------------------------------------------------------
(* Entry points: progressive file, init segment, media segment.              *)
(* cfg: the instance configuration; v: accepted video samples (v[1].src is   *)
(* the first key frame as submitted).                                        *)

EntryOf(vc) == IF vc = "h264" THEN "avc1" ELSE IF vc = "h265" THEN "hvc1" ELSE IF vc = "av1" THEN "av01" ELSE "vp09"
CfgBoxOf(vc) == IF vc = "h264" THEN "avcC" ELSE IF vc = "h265" THEN "hvcC" ELSE IF vc = "av1" THEN "av1C" ELSE "vpcC"

NeedRaw(F, path, site, S(_)) == IF HasRaw(F, path) THEN S(RawB(F, path)) ELSE {LSig("C19", "BoxLayout", site, "missing")}

VideoConfigSigs(F, path, site, vc, first) ==     \* first: first key frame bytes as submitted
    NeedRaw(F, path, site, LAMBDA b :
        IF vc = "h264" THEN AvcCSigs("C07", site, b, H264Sps(first), H264Pps(first))
                            \cup (IF Len(b) >= 6 /\ (b[1] # 1 \/ b[5] # 255 \/ b[6] # 225) THEN {LSig("C19", "AvcC", site, "version-reserved")} ELSE {})
                            \cup AvcCTailSigs("C19", site, b, H264Sps(first), H264Pps(first))
        ELSE IF vc = "h265" THEN
             { IF s[4] \in {"vps", "sps", "pps", "profile-tier-level"} THEN LSig("C07", s[2], s[3], s[4]) ELSE s
               : s \in HvcCSigs("C19", site, b, H265Vps(first), H265Sps(first), H265Pps(first)) }
        ELSE IF vc = "av1" THEN
             { IF s[4] \in {"marker-version", "reserved-bits", "truncated"} THEN LSig("C19", s[2], s[3], s[4]) ELSE s
               : s \in Av1CSigs("C07", site, b, Av1SeqObuBytes(first)) }
        ELSE VpcCSigs("C19", site, b, Vp9Fields(first)) \cup VpcCPlainSigs("C07", site, b, Vp9Fields(first)) \cup VpcCContentSigs("C07", site, b, Vp9Fields(first)))

TrackIdOf(F, t) == IF t <= Len(F.tracks) THEN F.tracks[t].tid ELSE 0
TrackEntry(F, k) == IF k <= Len(F.tracks) THEN F.tracks[k].entry ELSE ""      \* total: a damaged file may have fewer tracks

ProgressiveRawSigs(F, cfg, firstKey, hasVideo) ==
    LET vt == "moov.trak0"  at == "moov.trak1"
        hasA == cfg.ac # "none"
        ent == EntryOf(cfg.vc)
        vstsd == vt \o ".mdia.minf.stbl.stsd"
        astsd == at \o ".mdia.minf.stbl.stsd"
        aent == IF cfg.ac = "opus" THEN "Opus" ELSE "mp4a"
        ids == { F.tracks[t].tid : t \in 1..Len(F.tracks) }
    IN
         NeedRaw(F, "moov.mvhd", "progressive/mvhd", LAMBDA b : FieldTableSigs("C19", "progressive/mvhd", b, MvhdSize(b), MvhdFieldsV(b, 1000))
                \cup (IF Len(b) # MvhdSize(b) \/ ~FitsU32(b, MvhdNextIdOff(b) + 1) THEN {} ELSE
                      IF \E i \in ids : U32(b, MvhdNextIdOff(b) + 1) <= i THEN {LSig("C19", "Recovered", "progressive/mvhd", "next_track_ID")} ELSE {}))
    \cup (IF F.mvts # 1000 THEN {LSig("C19", "Recovered", "progressive/mvhd", "movie-timescale")} ELSE {})
    \cup (IF 0 \in ids \/ Cardinality(ids) # Len(F.tracks) THEN {LSig("C19", "Recovered", "progressive/tkhd", "track-ids")} ELSE {})
    \cup NeedRaw(F, vt \o ".tkhd", "progressive/tkhd", LAMBDA b :
              FieldTableSigs("C19", "progressive/tkhd", b, TkhdSize(b), TkhdFieldsV(b, 1, cfg.w, cfg.h, FALSE))
              \cup (IF ~TkhdEnabled(b) THEN {LSig("C19", "Recovered", "progressive/tkhd", "track-not-enabled")} ELSE {}))
    \cup NeedRaw(F, vt \o ".mdia.mdhd", "progressive/mdhd", LAMBDA b : FieldTableSigs("C19", "progressive/mdhd", b, MdhdSize(b), MdhdFieldsV(b, 90000)))
    \cup NeedRaw(F, vt \o ".mdia.hdlr", "progressive/hdlr", LAMBDA b : FieldTableSigs("C19", "progressive/hdlr", b, -1, HdlrFields(VIDE))
              \cup (IF HdlrNameBad(b) THEN {LSig("C19", "BoxLayout", "progressive/hdlr", "name")} ELSE {}))
    \cup NeedRaw(F, vt \o ".mdia.minf.vmhd", "progressive/vmhd", LAMBDA b : FieldTableSigs("C19", "progressive/vmhd", b, 12,     \* 14496-12 12.1.2: FullBox(version 0, flags 1)
                                << Fld("version", 0, 1, << 0 >>), Fld("flags", 1, 3, << 0, 0, 1 >>), Fld("graphicsmode-opcolor", 4, 8, Zeros(8)) >>))
    \cup NeedRaw(F, vt \o ".mdia.minf.dinf.dref.url ", "progressive/url", LAMBDA b : FieldTableSigs("C19", "progressive/url", b, 4, << Fld("version-flags", 0, 4, << 0, 0, 0, 1 >>) >>))   \* self-contained
    \cup NeedRaw(F, vt \o ".mdia.minf.dinf.dref", "progressive/dref", LAMBDA b : FieldTableSigs("C19", "progressive/dref", b, 8, << Fld("version-flags", 0, 4, Zeros(4)), Fld("entry_count", 4, 4, << 0,0,0,1 >>) >>))
    \cup NeedRaw(F, vstsd, "progressive/stsd", LAMBDA b : FieldTableSigs("C19", "progressive/stsd", b, 8, << Fld("version-flags", 0, 4, Zeros(4)), Fld("entry_count", 4, 4, << 0,0,0,1 >>) >>))
    \cup (IF hasVideo THEN
             (IF TrackEntry(F, 1) # ent THEN {LSig("C07", "SampleEntry", "progressive/video", ToString(<< "type", TrackEntry(F, 1) >>))} ELSE
              NeedRaw(F, vstsd \o "." \o ent, "progressive/" \o ent, LAMBDA b :
                    { IF s[4] \in {"width", "height"} THEN LSig("C07", "SampleEntry", s[3], s[4]) ELSE s
                      : s \in FieldTableSigs("C19", "progressive/" \o ent, b, 78, VisualEntryFields(cfg.w, cfg.h)) })
              \cup VideoConfigSigs(F, vstsd \o "." \o ent \o "." \o CfgBoxOf(cfg.vc), "progressive/" \o CfgBoxOf(cfg.vc), cfg.vc, firstKey))
          ELSE {})
    \cup (IF hasA THEN
             NeedRaw(F, at \o ".tkhd", "progressive/tkhd-audio", LAMBDA b :
                  FieldTableSigs("C19", "progressive/tkhd-audio", b, TkhdSize(b), TkhdFieldsV(b, TrackIdOf(F, 2), 0, 0, TRUE))
                  \cup (IF ~TkhdEnabled(b) THEN {LSig("C19", "Recovered", "progressive/tkhd-audio", "track-not-enabled")} ELSE {}))
        \cup NeedRaw(F, at \o ".mdia.mdhd", "progressive/mdhd-audio", LAMBDA b : FieldTableSigs("C19", "progressive/mdhd-audio", b, MdhdSize(b), MdhdFieldsV(b, 90000)))
        \cup NeedRaw(F, at \o ".mdia.hdlr", "progressive/hdlr-audio", LAMBDA b : FieldTableSigs("C19", "progressive/hdlr-audio", b, -1, HdlrFields(SOUN))
                                                                        \cup (IF HdlrNameBad(b) THEN {LSig("C19", "BoxLayout", "progressive/hdlr-audio", "name")} ELSE {}))
        \cup NeedRaw(F, at \o ".mdia.minf.dinf.dref.url ", "progressive/url-audio", LAMBDA b : FieldTableSigs("C19", "progressive/url-audio", b, 4, << Fld("version-flags", 0, 4, << 0, 0, 0, 1 >>) >>))
        \cup NeedRaw(F, at \o ".mdia.minf.smhd", "progressive/smhd", LAMBDA b : FieldTableSigs("C19", "progressive/smhd", b, 8, << Fld("version-flags", 0, 4, Zeros(4)), Fld("reserved", 6, 2, Zeros(2)) >>))
        \cup (IF TrackEntry(F, 2) # aent THEN {LSig("C07", "SampleEntry", "progressive/audio", ToString(<< "type", TrackEntry(F, 2) >>))} ELSE
              NeedRaw(F, astsd \o "." \o aent, "progressive/" \o aent, LAMBDA b :
                    { IF s[4] \in {"channelcount", "samplerate"} THEN LSig("C07", "SampleEntry", s[3], s[4]) ELSE s
                      : s \in FieldTableSigs("C19", "progressive/" \o aent, b, 28,
                                        AudioEntryFields(cfg.ch, IF cfg.ac = "opus" THEN 48000 ELSE cfg.rate)) })
              \cup (IF cfg.ac = "aac"
                    THEN NeedRaw(F, astsd \o ".mp4a.esds", "progressive/esds", LAMBDA b : EsdsSigs("C19", "progressive/esds", b, cfg.rate, cfg.ch))
                    ELSE NeedRaw(F, astsd \o ".Opus.dOps", "progressive/dOps", LAMBDA b : DOpsSigs("C19", "progressive/dOps", b, cfg.ch))))
          ELSE {})

(* C16 on configuration values: a successfully produced file / init segment must not contain a value *)
(* that its field cannot hold.                                                                       *)
WidthSigs(site, cfg, firstKey, hasVideo) ==
         (IF hasVideo /\ cfg.vc = "h264" /\ (TooLong(H264Sps(firstKey)) \/ TooLong(H264Pps(firstKey)))
          THEN {LSig("C16", "FieldsFit", site \o "/avcC", "parameter-set-length-exceeds-16-bit-field")} ELSE {})
    \cup (IF hasVideo /\ cfg.vc = "h265" /\ (TooLong(H265Vps(firstKey)) \/ TooLong(H265Sps(firstKey)) \/ TooLong(H265Pps(firstKey)))
          THEN {LSig("C16", "FieldsFit", site \o "/hvcC", "parameter-set-length-exceeds-16-bit-field")} ELSE {})
    \cup (IF cfg.w > 65535 \/ cfg.h > 65535 THEN {LSig("C16", "FieldsFit", site \o "/sample-entry", "dimension-exceeds-16-bit-field")} ELSE {})
AudioWidthSigs(site, cfg) ==
    IF cfg.ac = "none" THEN {}
    ELSE (IF cfg.ac = "opus" /\ cfg.ch > 255 THEN {LSig("C16", "FieldsFit", site \o "/dOps", "channel-count-exceeds-8-bit-field")} ELSE {})
    \cup (IF cfg.ac = "aac" /\ cfg.rate > 65535 THEN {LSig("C16", "FieldsFit", site \o "/mp4a", "sample-rate-exceeds-16.16-field")} ELSE {})

(* udta/meta/hdlr (ISO/IEC 14496-12 8.4.3 as used by the iTunes-style metadata the library writes): FullBox version 0 *)
(* flags 0, pre_defined 0, handler_type 'mdir', then three reserved words of which the first carries the 'appl'     *)
(* manufacturer code of that convention (not judged) and the other two are zero, then a null-terminated name.       *)
MetaHdlrSigs(F) ==
    IF ~HasRaw(F, "moov.udta.meta.hdlr") THEN {}
    ELSE LET b == RawB(F, "moov.udta.meta.hdlr") IN
         FieldTableSigs("C19", "progressive/meta-hdlr", b, -1,
              << Fld("version-flags", 0, 4, Zeros(4)), Fld("pre_defined", 4, 4, Zeros(4)), Fld("handler_type", 8, 4, << 109, 100, 105, 114 >>),
                 Fld("reserved", 16, 8, Zeros(8)) >>)
         \cup (IF HdlrNameBad(b) THEN {LSig("C19", "BoxLayout", "progressive/meta-hdlr", "name")} ELSE {})

RawSigsFile(F, cfg, v, a) ==
    IF ~("raw" \in DOMAIN F) THEN {}
    ELSE MetaHdlrSigs(F) \cup
         ProgressiveRawSigs(F, cfg, IF v = << >> THEN << >> ELSE v[1].src, v # << >>)
         \cup WidthSigs("progressive", cfg, IF v = << >> THEN << >> ELSE v[1].src, v # << >>)
         \cup AudioWidthSigs("progressive", cfg)

(* ---- fragmented init segment: parameter sets come from the builder (cfg.sps / pps / vps / av1 / vp9) ---- *)
InitConfigSigs(F, path, site, cfg) ==
    NeedRaw(F, path, site, LAMBDA b :
        IF cfg.vc = "h264" THEN AvcCSigs("C07", site, b, cfg.sps, cfg.pps)
                            \cup (IF Len(b) >= 6 /\ (b[1] # 1 \/ b[5] # 255 \/ b[6] # 225) THEN {LSig("C19", "AvcC", site, "version-reserved")} ELSE {})
                            \cup AvcCTailSigs("C19", site, b, cfg.sps, cfg.pps)
        ELSE IF cfg.vc = "h265" THEN
             IF TooLong(cfg.vps) \/ TooLong(cfg.sps) \/ TooLong(cfg.pps) THEN {}       \* lengths cannot be stored: C16
             ELSE
             { IF s[4] \in {"vps", "sps", "pps", "profile-tier-level"} THEN LSig("C07", s[2], s[3], s[4]) ELSE s
               : s \in HvcCSigs("C19", site, b, cfg.vps, cfg.sps, cfg.pps) }
        ELSE IF cfg.vc = "av1" THEN
             { IF s[4] \in {"marker-version", "reserved-bits", "truncated"} THEN LSig("C19", s[2], s[3], s[4]) ELSE s
               : s \in Av1CSigs("C07", site, b, cfg.av1) }
        ELSE LET f == [profile |-> cfg.vp9.profile, depth |-> cfg.vp9.bit_depth, cs |-> cfg.vp9.color_space,
                       tf |-> cfg.vp9.transfer_function, mc |-> cfg.vp9.matrix_coefficients, fr |-> cfg.vp9.full_range_flag]
             IN VpcCSigs("C19", site, b, f) \cup VpcCPlainSigs("C07", site, b, f) \cup VpcCContentSigs("C07", site, b, f))

InitWidthSigs0(cfg) ==
         (IF cfg.vc = "h264" /\ "sps" \in DOMAIN cfg /\ (TooLong(cfg.sps) \/ TooLong(cfg.pps))
          THEN {LSig("C16", "FieldsFit", "/avcC", "parameter-set-length-exceeds-16-bit-field")} ELSE {})
    \cup (IF cfg.vc = "h265" /\ "sps" \in DOMAIN cfg /\ "vps" \in DOMAIN cfg /\ (TooLong(cfg.vps) \/ TooLong(cfg.sps) \/ TooLong(cfg.pps))
          THEN {LSig("C16", "FieldsFit", "/hvcC", "parameter-set-length-exceeds-16-bit-field")} ELSE {})
    \cup (IF cfg.w > 65535 \/ cfg.h > 65535 THEN {LSig("C16", "FieldsFit", "/sample-entry", "dimension-exceeds-16-bit-field")} ELSE {})

InitWidthSigs(cfg) ==
    LET pre == IF cfg.via = "config" THEN "init-via-config" ELSE "init-via-builder" IN
    { LSig(s[1], s[2], pre \o s[3], s[4]) : s \in InitWidthSigs0(cfg) }
RawSigsInit(F, cfg) ==
    IF ~("raw" \in DOMAIN F) \/ ~cfg.judge_config THEN {}
    ELSE InitWidthSigs(cfg) \cup
         LET vt == "moov.trak0"
             ent == EntryOf(cfg.vc)
             vstsd == vt \o ".mdia.minf.stbl.stsd"
         IN
         NeedRaw(F, "moov.mvhd", "init/mvhd", LAMBDA b : FieldTableSigs("C19", "init/mvhd", b, MvhdSize(b), MvhdFieldsV(b, cfg.timescale))
                \cup (IF Len(b) = MvhdSize(b) /\ FitsU32(b, MvhdNextIdOff(b) + 1) /\ U32(b, MvhdNextIdOff(b) + 1) <= 1 THEN {LSig("C19", "Recovered", "init/mvhd", "next_track_ID")} ELSE {}))
    \cup NeedRaw(F, vt \o ".tkhd", "init/tkhd", LAMBDA b :
              FieldTableSigs("C19", "init/tkhd", b, TkhdSize(b), TkhdFieldsV(b, 1, cfg.w, cfg.h, FALSE))
              \cup (IF ~TkhdEnabled(b) THEN {LSig("C19", "Recovered", "init/tkhd", "track-not-enabled")} ELSE {}))
    \cup NeedRaw(F, vt \o ".mdia.mdhd", "init/mdhd", LAMBDA b : FieldTableSigs("C19", "init/mdhd", b, MdhdSize(b),
                   MdhdFieldsV(b, cfg.timescale) \o << Fld("language", IF Ver(b) = 1 THEN 32 ELSE 20, 2, << 85, 196 >>) >>))     \* no language can be configured: 'und', pad bit 0
    \cup NeedRaw(F, vt \o ".mdia.hdlr", "init/hdlr", LAMBDA b : FieldTableSigs("C19", "init/hdlr", b, -1, HdlrFields(VIDE))
              \cup (IF HdlrNameBad(b) THEN {LSig("C19", "BoxLayout", "init/hdlr", "name")} ELSE {}))
    \cup NeedRaw(F, vt \o ".mdia.minf.vmhd", "init/vmhd", LAMBDA b : FieldTableSigs("C19", "init/vmhd", b, 12,     \* 14496-12 12.1.2: FullBox(version 0, flags 1)
                                << Fld("version", 0, 1, << 0 >>), Fld("flags", 1, 3, << 0, 0, 1 >>), Fld("graphicsmode-opcolor", 4, 8, Zeros(8)) >>))
    \cup NeedRaw(F, vt \o ".mdia.minf.dinf.dref.url ", "init/url", LAMBDA b : FieldTableSigs("C19", "init/url", b, 4, << Fld("version-flags", 0, 4, << 0, 0, 0, 1 >>) >>))   \* self-contained
    \cup NeedRaw(F, vt \o ".mdia.minf.dinf.dref", "init/dref", LAMBDA b : FieldTableSigs("C19", "init/dref", b, 8, << Fld("version-flags", 0, 4, Zeros(4)), Fld("entry_count", 4, 4, << 0,0,0,1 >>) >>))
    \cup NeedRaw(F, vstsd, "init/stsd", LAMBDA b : FieldTableSigs("C19", "init/stsd", b, 8, << Fld("version-flags", 0, 4, Zeros(4)), Fld("entry_count", 4, 4, << 0,0,0,1 >>) >>))
    \cup NeedRaw(F, "moov.mvex.trex", "init/trex", LAMBDA b : FieldTableSigs("C19", "init/trex", b, 24,
              << Fld("version-flags", 0, 4, Zeros(4)), Fld("track_ID", 4, 4, << 0,0,0,1 >>), Fld("default_sample_description_index", 8, 4, << 0,0,0,1 >>) >>))
    \cup (IF F.tracks = << >> THEN {} ELSE
          IF TrackEntry(F, 1) # ent THEN {LSig("C07", "SampleEntry", "init/video", ToString(<< "type", TrackEntry(F, 1) >>))} ELSE
          NeedRaw(F, vstsd \o "." \o ent, "init/" \o ent, LAMBDA b :
                { IF s[4] \in {"width", "height"} THEN LSig("C07", "SampleEntry", s[3], s[4]) ELSE s
                  : s \in FieldTableSigs("C19", "init/" \o ent, b, 78, VisualEntryFields(cfg.w, cfg.h)) })
          \cup InitConfigSigs(F, vstsd \o "." \o ent \o "." \o CfgBoxOf(cfg.vc), "init/" \o CfgBoxOf(cfg.vc), cfg))

(* ---- media segment: mfhd / tfhd / tfdt / trun sizes and versions ---- *)
RawSigsSegment(S, cfg, q) ==
    IF ~("raw" \in DOMAIN S) THEN {}
    ELSE NeedRaw(S, "moof.mfhd", "segment/mfhd", LAMBDA b : FieldTableSigs("C19", "segment/mfhd", b, 8, << Fld("version-flags", 0, 4, Zeros(4)) >>))
    \cup NeedRaw(S, "moof.traf.tfhd", "segment/tfhd", LAMBDA b :
             (IF Len(b) < 8 \/ b[1] # 0 THEN {LSig("C19", "BoxLayout", "segment/tfhd", "version")} ELSE {})
             \cup (IF Len(b) >= 8 /\ At(b, 4, 4) # << 0,0,0,1 >> THEN {LSig("C19", "BoxLayout", "segment/tfhd", "track_ID")} ELSE {})
             \cup (IF Len(b) >= 4 /\ Len(b) # 8 + 8 * (b[4] % 2) + 4 * ((b[4] \div 2) % 2) + 4 * ((b[4] \div 8) % 2) + 4 * ((b[4] \div 16) % 2) + 4 * ((b[4] \div 32) % 2)
                   THEN {LSig("C19", "BoxLayout", "segment/tfhd", "size")} ELSE {}))
    \cup NeedRaw(S, "moof.traf.tfdt", "segment/tfdt", LAMBDA b :
             IF Len(b) < 4 THEN {LSig("C19", "BoxLayout", "segment/tfdt", "truncated")}
             ELSE IF b[1] = 1 THEN (IF Len(b) # 12 THEN {LSig("C19", "BoxLayout", "segment/tfdt", "size")} ELSE {})
             ELSE IF b[1] = 0 THEN (IF Len(b) # 8 THEN {LSig("C19", "BoxLayout", "segment/tfdt", "size")} ELSE {})
             ELSE {LSig("C19", "BoxLayout", "segment/tfdt", "version")})
    \cup NeedRaw(S, "moof.traf.trun", "segment/trun", LAMBDA b :
             IF Len(b) < 8 THEN {LSig("C19", "BoxLayout", "segment/trun", "truncated")}
             ELSE LET fl == b[4]  fh == b[3]
                      per == 4 * (fh % 2) + 4 * ((fh \div 2) % 2) + 4 * ((fh \div 4) % 2) + 4 * ((fh \div 8) % 2)
                      fixed == 8 + 4 * (fl % 2) + 4 * ((fl \div 4) % 2)
                  IN (IF b[1] > 1 THEN {LSig("C19", "BoxLayout", "segment/trun", "version")} ELSE {})
                  \cup (IF Len(b) # fixed + per * Len(q) THEN {LSig("C19", "BoxLayout", "segment/trun", "size")} ELSE {}))

=============================================================================
