------------------------------- MODULE BoxTree -------------------------------
(***************************************************************************)
(* ISO-BMFF (ISO/IEC 14496-12) structure: which boxes are containers and    *)
(* how many payload bytes precede their children, the recursive tiling      *)
(* predicate ("declared sizes exactly tile the parent, no slack, no         *)
(* overrun"), and the grammars of the three kinds of byte stream muxide     *)
(* emits.  Property C02.                                                    *)
(*                                                                          *)
(* A tree node, as reported by the independent reader, is a record          *)
(*   [t, off, sz (declared), len (clamped), over, bad]                      *)
(* plus [pre, kids, slack] when the reader treated it as a container.       *)
(***************************************************************************)
EXTENDS Bytes, TLC

(* Containers and the number of bytes between the box header and the first  *)
(* child (FullBox version/flags, entry counts, sample-entry fields).        *)
ContainerPrefix ==
    [t \in {"moov", "trak", "mdia", "minf", "stbl", "dinf", "udta", "mvex", "moof", "traf",
            "edts", "ilst"} |-> 0]
    @@ [t \in {"meta"} |-> 4]
    @@ [t \in {"dref", "stsd"} |-> 8]
    @@ [t \in {"avc1", "hvc1", "hev1", "av01", "vp09"} |-> 78]
    @@ [t \in {"mp4a", "Opus"} |-> 28]

IsContainerNode(n) == "kids" \in DOMAIN n

TSig(q, site, cls) == << "C02", q, site, cls >>

(* Tiling of one node: its own size, and its children if it is a container. *)
RECURSIVE TilingSigs(_, _, _)
TilingSigs(n, path, inIlst) ==
         (IF n.bad THEN {TSig("Tiling", n.t, "size-below-header")} ELSE {})
    \cup (IF n.over THEN {TSig("Tiling", n.t, "overrun")} ELSE {})
    \cup (IF ~n.bad /\ ~n.over /\ n.sz # n.len THEN {TSig("Tiling", n.t, "size")} ELSE {})
    \cup (IF ~inIlst /\ IsContainerNode(n) # (n.t \in DOMAIN ContainerPrefix)
          THEN {TSig("Tiling", n.t, "container-table")} ELSE {})
    \cup (IF ~inIlst /\ IsContainerNode(n) /\ n.t \in DOMAIN ContainerPrefix /\ n.pre # ContainerPrefix[n.t]
          THEN {TSig("Tiling", n.t, "container-prefix")} ELSE {})
    \cup (IF IsContainerNode(n) /\ ~n.bad /\ ~n.over THEN
            (IF n.slack # 0 THEN {TSig("Tiling", n.t, "slack")} ELSE {})
            \cup (IF n.kids # << >> /\ n.kids[1].off # n.off + 8 + n.pre THEN {TSig("Tiling", n.t, "first-child")} ELSE {})
            \cup (IF \E i \in 1..(Len(n.kids) - 1) : n.kids[i+1].off # n.kids[i].off + n.kids[i].len
                  THEN {TSig("Tiling", n.t, "gap")} ELSE {})
            \cup (IF n.kids # << >> /\ n.slack = 0
                     /\ n.kids[Len(n.kids)].off + n.kids[Len(n.kids)].len # n.off + n.len
                  THEN {TSig("Tiling", n.t, "end")} ELSE {})
            \cup (IF n.kids = << >> /\ n.len # 8 + n.pre THEN {TSig("Tiling", n.t, "empty-container")} ELSE {})
            \cup UNION { TilingSigs(n.kids[i], path, n.t = "ilst") : i \in 1..Len(n.kids) }
          ELSE {})

TopTiling(tree, total, topslack) ==
         (IF topslack # 0 THEN {TSig("Tiling", "file", "slack")} ELSE {})
    \cup (IF tree # << >> /\ tree[1].off # 0 THEN {TSig("Tiling", "file", "first-child")} ELSE {})
    \cup (IF \E i \in 1..(Len(tree) - 1) : tree[i+1].off # tree[i].off + tree[i].len
          THEN {TSig("Tiling", "file", "gap")} ELSE {})
    \cup (IF tree # << >> /\ topslack = 0 /\ tree[Len(tree)].off + tree[Len(tree)].len # total
          THEN {TSig("Tiling", "file", "end")} ELSE {})
    \cup UNION { TilingSigs(tree[i], "", FALSE) : i \in 1..Len(tree) }

(* ---- grammar helpers ---- *)
Count(kids, t) == Cardinality({ i \in 1..Len(kids) : kids[i].t = t })
Kid(kids, t) == kids[MinOf({ i \in 1..Len(kids) : kids[i].t = t })]
KidsOf(n) == IF IsContainerNode(n) THEN n.kids ELSE << >>

(* every type of `once` exactly once, every type of `opt` at most once *)
Need(kids, once, opt, site) ==
         { TSig("Grammar", site, ToString(<< "missing-or-repeated", t >>)) : t \in { u \in once : Count(kids, u) # 1 } }
    \cup { TSig("Grammar", site, ToString(<< "repeated", t >>)) : t \in { u \in opt : Count(kids, u) > 1 } }

Under(kids, t, F(_)) == IF Count(kids, t) = 1 THEN F(Kid(kids, t)) ELSE {}

StblSigs(stbl, frag) ==
    LET k == KidsOf(stbl) IN
    Need(k, {"stsd", "stts", "stsc", "stsz"}, {"ctts", "stss"}, "stbl")
    \cup (IF Count(k, "stco") + Count(k, "co64") # 1 THEN {TSig("Grammar", "stbl", ToString(<< "missing-or-repeated", "stco" >>))} ELSE {})
    \cup Under(k, "stsd", LAMBDA s : IF Len(KidsOf(s)) # 1 THEN {TSig("Grammar", "stsd", "entry-count")} ELSE {})

MinfSigs(minf, handler) ==
    LET k == KidsOf(minf)
        mh == IF handler = "vide" THEN "vmhd" ELSE "smhd" IN
    Need(k, {mh, "dinf", "stbl"}, {}, "minf")
    \cup Under(k, "dinf", LAMBDA d : Need(KidsOf(d), {"dref"}, {}, "dinf")
              \cup Under(KidsOf(d), "dref", LAMBDA r : IF Len(KidsOf(r)) < 1 THEN {TSig("Grammar", "dref", "no-entry")} ELSE {}))
    \cup Under(k, "stbl", LAMBDA s : StblSigs(s, FALSE))

TrakSigs(trak, handler) ==
    LET k == KidsOf(trak) IN
    Need(k, {"tkhd", "mdia"}, {"edts"}, "trak")
    \cup Under(k, "mdia", LAMBDA m : Need(KidsOf(m), {"mdhd", "hdlr", "minf"}, {}, "mdia")
              \cup Under(KidsOf(m), "minf", LAMBDA mi : MinfSigs(mi, handler)))

(* Table consistency of a track projection (Sigma stts = Sigma ctts = stsz   *)
(* count = samples addressed by stsc x stco; stss strictly increasing in 1..n) *)
TableSigs(T, site) ==
         (IF T.sttsn # T.n THEN {TSig("Tables", site, "stts-count")} ELSE {})
    \cup (IF T.ctts /\ T.cttsn # T.n THEN {TSig("Tables", site, "ctts-count")} ELSE {})
    \cup (IF T.resolved # T.n \/ ~T.complete THEN {TSig("Tables", site, "chunk-map")} ELSE {})
    \cup (IF T.stss /\ "stssl" \in DOMAIN T /\ ( (\E i \in 1..(Len(T.stssl) - 1) : T.stssl[i+1] <= T.stssl[i])
                         \/ (\E i \in 1..Len(T.stssl) : T.stssl[i] < 1 \/ T.stssl[i] > T.n) )
          THEN {TSig("Tables", site, "stss")} ELSE {})
    \cup (IF T.stsdn # 1 THEN {TSig("Tables", site, "stsd-count")} ELSE {})

MoovSigs(moov, nTracks, wantUdta, wantMvex) ==
    LET k == KidsOf(moov) IN
    Need(k, {"mvhd"} \cup (IF wantMvex THEN {"mvex"} ELSE {}), {"udta"}, "moov")
    \cup (IF Count(k, "trak") # nTracks THEN {TSig("Grammar", "moov", "track-count")} ELSE {})
    \cup (IF wantUdta # "any" /\ (Count(k, "udta") = 1) # (wantUdta = "yes")
          THEN {TSig("Grammar", "moov", IF wantUdta = "yes" THEN "udta-missing" ELSE "udta-unexpected")} ELSE {})
    \cup (IF wantMvex THEN Under(k, "mvex", LAMBDA x :
              IF Count(KidsOf(x), "trex") # nTracks THEN {TSig("Grammar", "mvex", "trex-count")} ELSE {}) ELSE {})
    \cup UNION { LET tr == k[i]
                     idx == Cardinality({ j \in 1..i : k[j].t = "trak" })
                 IN IF tr.t = "trak" THEN TrakSigs(tr, IF idx = 1 THEN "vide" ELSE "soun") ELSE {}
                 : i \in 1..Len(k) }

TopTypes(tree) == [i \in 1..Len(tree) |-> tree[i].t]

(* A finished progressive file. *)
ProgressiveSigs(F, nTracks, wantUdta) ==
    LET tt == TopTypes(F.tree) IN
         TopTiling(F.tree, F.len, F.topslack)
    \cup (IF tt = << >> \/ tt[1] # "ftyp" THEN {TSig("Grammar", "file", "ftyp-not-first")} ELSE {})
    \cup (IF Count(F.tree, "ftyp") # 1 THEN {TSig("Grammar", "file", "ftyp-count")} ELSE {})
    \cup (IF Count(F.tree, "moov") # 1 THEN {TSig("Grammar", "file", "moov-count")} ELSE {})
    \cup (IF Count(F.tree, "mdat") > 1 THEN {TSig("Grammar", "file", "mdat-count")} ELSE {})
    \cup (IF \E i \in 1..Len(tt) : tt[i] \notin {"ftyp", "moov", "mdat"} THEN {TSig("Grammar", "file", "unknown-top-box")} ELSE {})
    \cup Under(F.tree, "moov", LAMBDA m : MoovSigs(m, nTracks, wantUdta, FALSE))
    \cup (IF "tracks" \in DOMAIN F THEN
             UNION { TableSigs(F.tracks[t], IF t = 1 THEN "video" ELSE "audio") : t \in 1..Len(F.tracks) }
          ELSE {})

(* A fragmented init segment: ftyp, moov with mvex/trex, no mdat. *)
InitSigs(F) ==
    LET tt == TopTypes(F.tree) IN
         TopTiling(F.tree, F.len, F.topslack)
    \cup (IF tt # << "ftyp", "moov" >> THEN {TSig("Grammar", "init", "top-sequence")} ELSE {})
    \cup Under(F.tree, "moov", LAMBDA m : MoovSigs(m, 1, "any", TRUE))
    \cup (IF "tracks" \in DOMAIN F THEN
             UNION { TableSigs(F.tracks[t], "video") : t \in 1..Len(F.tracks) } ELSE {})

(* A media segment: exactly moof (mfhd; traf (tfhd tfdt trun)) then one mdat. *)
SegmentSigs(F) ==
    LET tt == TopTypes(F.tree) IN
         TopTiling(F.tree, F.len, F.topslack)
    \cup (IF tt # << "moof", "mdat" >> THEN {TSig("Grammar", "segment", "top-sequence")} ELSE {})
    \cup Under(F.tree, "moof", LAMBDA m :
            (IF TopTypes(KidsOf(m)) # << "mfhd", "traf" >> THEN {TSig("Grammar", "moof", "children")} ELSE {})
            \cup Under(KidsOf(m), "traf", LAMBDA tf :
                    IF TopTypes(KidsOf(tf)) # << "tfhd", "tfdt", "trun" >> THEN {TSig("Grammar", "traf", "children")} ELSE {}))

(* Entry point used by TraceMuxide for a finished progressive file. *)
TreeSigsFile(F, hasA, nv, na) == ProgressiveSigs(F, IF hasA THEN 2 ELSE 1, "any")

=============================================================================
