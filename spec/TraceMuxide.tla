----------------------------- MODULE TraceMuxide -----------------------------
(***************************************************************************)
(* Trace specification for the progressive muxer: replays executions        *)
(* recorded from the real library (ndjson, one event per line; several      *)
(* muxer instances per file, each introduced by a "new" event) through the  *)
(* actions of Muxide.tla.  Observed outcomes drive the state; every         *)
(* property predicate is a monitor that prints a signature when false and   *)
(* never disables a step, so the whole trace is always consumed.            *)
(*                                                                          *)
(* Run:  TRACE=<file> tlc -workers 1 -config TraceMuxide.cfg TraceMuxide    *)
(***************************************************************************)
EXTENDS Muxide, BoxTree, BoxLayout, Meta, Json, IOUtils

Rec == ndJsonDeserialize(IOEnv.TRACE)

VARIABLES l,      \* index of the next event
          inst,   \* id of the current instance
          sk      \* sink protocol monitor (MuxideSink): [failed, delivered, flen, seen]

tvars == << cfg, phase, v, a, clockV, clockA, shadow, sunk, res, l, inst, sk >>

Sk0 == [failed |-> FALSE, delivered |-> 0, flen |-> 0, seen |-> FALSE]

SigLine(i, n, s) == PrintT("SIG|" \o ToString(i) \o "|" \o ToString(n) \o "|" \o ToString(s))
Emit(S) == \A s \in S : SigLine(inst, l, s)
Has(r, f) == f \in DOMAIN r

TInit == /\ l = 1 /\ inst = 0 /\ sk = Sk0
         /\ cfg = [vc |-> "h264", ac |-> "none", mode |-> "third", w32 |-> 0, i32 |-> 0, w32dur |-> 0, rate |-> 1]
         /\ phase = "gone" /\ v = << >> /\ a = << >> /\ clockV = 0 /\ clockA = 0
         /\ shadow = [firstV |-> None] /\ sunk = 0 /\ res = [ok |-> TRUE, variant |-> ""]

IsEv(e) == l <= Len(Rec) /\ Rec[l].ev = e

TNew == /\ IsEv("new")
        /\ l' = l + 1 /\ inst' = Rec[l].i /\ sk' = Sk0
        /\ cfg' = Rec[l].cfg
        /\ phase' = "open" /\ v' = << >> /\ a' = << >> /\ clockV' = 0 /\ clockA' = 0
        /\ shadow' = [firstV |-> None] /\ sunk' = 0 /\ res' = [ok |-> TRUE, variant |-> ""]
        /\ LET e == Rec[l]  noVideo == "novideo" \in DOMAIN e.cfg IN     \* builder rule (C04): build() succeeds iff a video track is configured
           \A s \in (IF e.var = "panic" THEN {Sig("C12", "Total", "build", ToString(<< "panic", e.msg >>))}
                      ELSE IF "nojudge" \in DOMAIN e.cfg THEN {}
                      ELSE IF noVideo /\ e.ok THEN {Sig("C04", "Legal", "build", "accepted-without-video")}
                      ELSE IF noVideo /\ e.var # "MissingVideoConfig" THEN {Sig("C04", "Legal", "build", ToString(<< "wrong-error", e.var >>))}
                      ELSE IF ~noVideo /\ ~e.ok THEN {Sig("C04", "Legal", "build", ToString(<< "rejected", e.var >>))}
                      ELSE {}) : SigLine(e.i, l, s)

Crashed(e) == e.var \in {"panic", "hang"}
(* instances that exist only to probe totality (argument extremes, arbitrary f64 bit patterns): *)
(* only "no panic, no hang" is judged on them                                                  *)
Judged == "nojudge" \notin DOMAIN cfg

(* ---- monitors on a frame-writing call ---- *)
LegalSigs(c, e) ==
    IF Crashed(e) THEN {}
    ELSE (IF Legal(c, e.ok, e.var) THEN {}
          ELSE {Sig("C04", "Legal", c.op,
                    IF e.ok THEN ToString(<< "accepted", CallViolated(c) >>)
                    ELSE IF CallViolated(c) = {} THEN ToString(<< "rejected", e.var >>)
                    ELSE ToString(<< "wrong-error", e.var, CallViolated(c) >>))})
         \cup (IF ~e.ok /\ ~VariantFitsCodec(e.var) THEN {Sig("C04", "Legal", c.op, ToString(<< "foreign-variant", e.var >>))} ELSE {})

TotalSigs(c, e) ==
    IF e.var = "panic" THEN {Sig("C12", "Total", c.op, ToString(<< "panic", e.msg >>))}
    ELSE IF e.var = "hang" THEN {Sig("C12", "Terminates", c.op, "hang")} ELSE {}

SinkQuiet(c, e) ==
    IF e.sb = e.sa THEN {}
    ELSE {Sig("C06", IF phase = "open" THEN "NothingBeforeFinish" ELSE "NothingAfter", c.op, "sink-write")}

TWrite == /\ IsEv("call")
          /\ l' = l + 1 /\ inst' = inst /\ sk' = sk
          /\ LET e == Rec[l] IN
             /\ Emit(TotalSigs(e, e) \cup (IF Judged THEN LegalSigs(e, e) \cup SinkQuiet(e, e) ELSE {}))
             /\ IF Judged THEN DoWrite(e, e.ok, e.var)
                ELSE UNCHANGED << cfg, phase, v, a, clockV, clockA, shadow, sunk, res >>

(* ---- monitors on a finished file ---- *)
TrackCountSigs(F) ==
    LET want == IF cfg.ac = "none" THEN 1 ELSE 2 IN
    IF ~Has(F, "tracks") THEN {Sig("C02", "Grammar", "moov", "missing")}
    ELSE IF Len(F.tracks) # want THEN {Sig("C02", "Grammar", "moov", "track-count")}
    ELSE IF Has(F, "absent") /\ F.absent # << >> THEN {Sig("C02", "Grammar", "moov", "header-box-missing")}       \* the reader filled defaults
    ELSE IF \E i \in 1..Len(F.tracks) : Has(F.tracks[i], "absent") /\ F.tracks[i].absent # << >>
         THEN {Sig("C02", "Grammar", "trak", "box-missing")} ELSE {}

FileSigs(F) ==
    LET tc == TrackCountSigs(F) IN
    IF tc # {} THEN tc \cup (IF cfg.facets.raw THEN RawSigsFile(F, cfg, v, a) ELSE {})     \* the header tables do not depend on the projection
    ELSE LET TV == F.tracks[1]
             hasA == cfg.ac # "none"
         IN  C01Track(v, TV, "video")
        \cup (IF hasA THEN C01Track(a, F.tracks[2], "audio") ELSE {})
        \cup (IF cfg.ac = "aac"    \* C14, second sentence: the stored AAC sample is the ADTS payload slice
              THEN { Sig("C14", "AdtsPayload", "audio", s[4]) : s \in { x \in C01Track(a, F.tracks[2], "audio") : x[2] = "SampleBytes" } }
              ELSE {})
        \cup C01Tiling(F)
        \cup (IF cfg.facets.timing THEN
                  C03Track(v, TV, "video") \cup (IF hasA THEN C03Track(a, F.tracks[2], "audio") ELSE {})
                  \cup C09Sigs(F)
                  \cup C16Track(v, TV, "video") \cup (IF hasA THEN C16Track(a, F.tracks[2], "audio") ELSE {})
                  \cup C16Movie(F)
              ELSE {})
        \cup C15Sigs(F)
        \cup (IF cfg.facets.tree THEN TreeSigsFile(F, hasA, Len(v), Len(a)) ELSE {})
        \cup (IF cfg.facets.raw THEN RawSigsFile(F, cfg, v, a) \cup MetaSigs(F, cfg) ELSE {})

FinishSigs(c, e) ==
    LET wrote == e.sa - e.sb IN
         (IF sk.failed /\ ~e.ok /\ e.var = "Io" THEN {} ELSE LegalSigs(c, e))   \* an Io error is legal when the sink failed (C13)
    \cup TotalSigs(c, e)
    \cup (IF e.ok THEN
              (IF phase # "open" \/ e.sb # 0 THEN {Sig("C06", "WrittenOnce", c.how, "again")} ELSE {})
              \cup (IF Has(e, "stats") THEN C06Stats(e.stats, wrote) ELSE {})
              \cup (IF Has(e, "obs") THEN
                        (IF e.obs.len # wrote THEN {Sig("C06", "WrittenOnce", c.how, "length")} ELSE {})
                        \cup FileSigs(e.obs)
                    ELSE {})
          ELSE IF Crashed(e) THEN {}
          ELSE IF wrote # 0 /\ e.var # "Io" THEN {Sig("C06", "NothingAfter", c.how, "sink-write")} ELSE {})

(* ---- C13: one write() call on the caller's sink, answered by the fault script ---- *)
SinkWriteSigs(e) ==
         (IF e.common # e.delivered THEN {Sig("C13", "PrefixAlways", "sink", "not-a-prefix")} ELSE {})
    \cup (IF e.delivered > e.flen THEN {Sig("C13", "PrefixAlways", "sink", "more-than-file")} ELSE {})
    \cup (IF sk.failed THEN {Sig("C13", "SilentAfterFailure", "sink", "write-after-failure")} ELSE {})
    \cup (IF phase # "open" /\ ~sk.failed THEN {Sig("C13", "SilentAfterFailure", "sink", "write-after-finish")} ELSE {})

TSinkWrite == /\ IsEv("sw")
              /\ l' = l + 1 /\ inst' = inst
              /\ LET e == Rec[l] IN
                 /\ Emit(SinkWriteSigs(e))
                 /\ sk' = [failed |-> sk.failed \/ e.resp \in {"zero", "fail"}, delivered |-> e.delivered, flen |-> e.flen, seen |-> TRUE]
              /\ UNCHANGED << cfg, phase, v, a, clockV, clockA, shadow, sunk, res >>

SinkFinishSigs(c, e) ==
    IF phase # "open" THEN {}
    ELSE IF Crashed(e) THEN (IF sk.failed THEN {Sig("C13", "ErrIffFailed", c.how, "panic-instead-of-error")} ELSE {})    \* a failing sink must surface as Err(Io)
    ELSE IF ~Has(e, "flen") THEN {}
    ELSE (IF e.ok /\ sk.failed THEN {Sig("C13", "ErrIffFailed", c.how, "ok-despite-failure")} ELSE {})
    \cup (IF ~e.ok /\ ~sk.failed THEN {Sig("C13", "ErrIffFailed", c.how, ToString(<< "error-without-failure", e.var >>))} ELSE {})
    \cup (IF ~e.ok /\ sk.failed /\ e.var # "Io" THEN {Sig("C13", "ErrIffFailed", c.how, ToString(<< "wrong-error", e.var >>))} ELSE {})
    \cup (IF ~sk.failed /\ e.ok /\ (e.sa - e.sb # e.flen \/ ~e.same_as_clean)
          THEN {Sig("C13", "ShortWritesHarmless", c.how, "delivered-differs")} ELSE {})
    \cup (IF ~sk.failed /\ e.ok /\ Has(e, "stats") /\ e.stats.bytes # e.flen
          THEN {Sig("C13", "ShortWritesHarmless", c.how, "byte-count")} ELSE {})

TFin == /\ IsEv("fin")
        /\ l' = l + 1 /\ inst' = inst /\ sk' = sk
        /\ LET e == Rec[l]  c == [op |-> "fin", how |-> e.how] IN
           /\ Emit(IF Judged THEN FinishSigs(c, e) \cup SinkFinishSigs(c, e) ELSE TotalSigs(c, e))
           /\ IF Judged THEN DoFinish(c, e.ok, e.var, e.sa - e.sb)
              ELSE UNCHANGED << cfg, phase, v, a, clockV, clockA, shadow, sunk, res >>

(* ---- comparison of two instances' outputs, logged as facts by the harness ---- *)
(* rel: "layout" (C08, fast-start on/off), "filtered" (C05), "alias"/"mode" (C17), "meta" (C18) *)
PairSigs(e) ==
    IF e.rel = "layout" THEN
         (IF ~e.same_outcomes THEN {Sig("C08", "LayoutInvariance", "outcomes", "differ")} ELSE {})
    \cup (IF Has(e, "strip_equal") /\ ~e.strip_equal THEN {Sig("C08", "LayoutInvariance", "projection", e.first_diff)} ELSE {})
    \cup (IF Has(e, "top_fast") /\ e.top_fast \notin { <<"ftyp", "moov", "mdat">>, <<"ftyp", "moov">> }
          THEN {Sig("C08", "TopOrder", "fast", "order")} ELSE {})
    \cup (IF Has(e, "top_std") /\ e.top_std \notin { <<"ftyp", "mdat", "moov">>, <<"ftyp", "moov">> }
          THEN {Sig("C08", "TopOrder", "standard", "order")} ELSE {})
    ELSE IF e.rel = "filtered" THEN
         (IF ~e.same_outcomes THEN {Sig("C05", "SameAsFiltered", "outcomes", e.first_diff)} ELSE {})
    \cup (IF ~e.same_stats THEN {Sig("C05", "SameAsFiltered", "stats", e.first_diff)} ELSE {})
    \cup (IF ~e.same_bytes THEN {Sig("C05", "SameAsFiltered", "file", e.first_diff)} ELSE {})
    ELSE IF e.rel \in {"alias", "mode"} THEN
         (IF ~e.same_outcomes THEN {Sig("C17", "SameOutcomes", e.what, "differ")} ELSE {})
    \cup (IF ~e.same_stats THEN {Sig("C17", "SameOutcomes", e.what, "stats")} ELSE {})
    \cup (IF ~e.same_bytes THEN {Sig("C17", "SameBytes", e.what, "differ")} ELSE {})
    ELSE IF e.rel = "meta" THEN
         (IF ~e.same_outcomes THEN {Sig("C18", "MetaIndependence", "outcomes", "differ")} ELSE {})
    \cup (IF ~e.strip_equal THEN {Sig("C18", "MetaIndependence", "projection", e.first_diff)} ELSE {})
    ELSE {}

TPair == /\ IsEv("pair")
         /\ l' = l + 1 /\ inst' = Rec[l].i
         /\ LET e == Rec[l] IN \A s \in PairSigs(e) : SigLine(e.i, l, s)
         /\ UNCHANGED << cfg, phase, v, a, clockV, clockA, shadow, sunk, res, sk >>

TNext == TNew \/ TWrite \/ TFin \/ TPair \/ TSinkWrite

TSpec == TInit /\ [][TNext]_tvars

(* The whole trace must be consumed: one state per event plus the initial one. *)
Consumed == IF TLCGet("stats").diameter = Len(Rec) + 1 THEN PrintT("CONSUMED|" \o ToString(Len(Rec)))
            ELSE PrintT("STUCK|" \o ToString(TLCGet("stats").diameter) \o "|" \o ToString(Len(Rec))) /\ FALSE

=============================================================================
