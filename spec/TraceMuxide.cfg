SPECIFICATION TSpec
CONSTANT Dev = {}
POSTCONDITION Consumed
CHECK_DEADLOCK FALSE
