//! Independent, lenient ISO-BMFF reader.
//!
//! Reports facts about a byte stream (box tree, sample tables resolved to per-sample
//! offset/size/duration/composition offset, raw payloads of leaf boxes, movie fragments) and
//! asserts nothing.  Shares no code with muxide.  Whatever cannot be parsed is reported as such
//! ("unres", "bad", "over", "slack") and judged by the TLA+ specification.

use serde_json::{json, Map, Value};

/// Number of payload bytes that precede the child boxes of a container of the given type.
/// `in_ilst` marks children of `ilst`, which are containers whatever their name.
pub fn container_prefix(typ: &[u8; 4], in_ilst: bool) -> Option<usize> {
    if in_ilst {
        return Some(0);
    }
    match typ {
        b"moov" | b"trak" | b"mdia" | b"minf" | b"stbl" | b"dinf" | b"udta" | b"mvex"
        | b"moof" | b"traf" | b"edts" | b"ilst" => Some(0),
        b"meta" => Some(4),
        b"dref" | b"stsd" => Some(8),
        b"avc1" | b"hvc1" | b"hev1" | b"av01" | b"vp09" => Some(78),
        b"mp4a" | b"Opus" => Some(28),
        _ => None,
    }
}

#[derive(Debug, Clone)]
pub struct BoxNode {
    pub typ: [u8; 4],
    pub off: usize,
    /// declared size field
    pub size: u64,
    /// end of the box clamped to the parent
    pub end: usize,
    pub pre: Option<usize>,
    pub kids: Vec<BoxNode>,
    /// bytes at the end of a container that cannot hold a box header or follow a bad child
    pub slack: usize,
    /// declared size runs past the parent
    pub over: bool,
    /// declared size is smaller than a header
    pub bad: bool,
}

pub fn type_str(t: &[u8; 4]) -> String {
    let mut s = String::new();
    for &b in t {
        if (0x20..0x7f).contains(&b) && b != b'~' && b != b'"' && b != b'\\' {
            s.push(b as char);
        } else {
            s.push_str(&format!("~{:02X}", b));
        }
    }
    s
}

fn be32(d: &[u8], o: usize) -> Option<u32> {
    d.get(o..o + 4).map(|b| u32::from_be_bytes([b[0], b[1], b[2], b[3]]))
}
fn be64(d: &[u8], o: usize) -> Option<u64> {
    d.get(o..o + 8).map(|b| {
        u64::from_be_bytes([b[0], b[1], b[2], b[3], b[4], b[5], b[6], b[7]])
    })
}
fn be16(d: &[u8], o: usize) -> Option<u16> {
    d.get(o..o + 2).map(|b| u16::from_be_bytes([b[0], b[1]]))
}

/// Parse the boxes in d[start..end].
pub fn parse_boxes(d: &[u8], start: usize, end: usize, in_ilst: bool, depth: usize) -> (Vec<BoxNode>, usize) {
    let mut out = Vec::new();
    let mut p = start;
    while p + 8 <= end {
        let size = be32(d, p).unwrap() as u64;
        let mut typ = [0u8; 4];
        typ.copy_from_slice(&d[p + 4..p + 8]);
        let mut node = BoxNode {
            typ,
            off: p,
            size,
            end: end,
            pre: None,
            kids: Vec::new(),
            slack: 0,
            over: false,
            bad: false,
        };
        if size < 8 {
            node.bad = true;
            node.end = end;
            out.push(node);
            return (out, 0);
        }
        let bend = p as u64 + size;
        if bend > end as u64 {
            node.over = true;
            node.end = end;
        } else {
            node.end = bend as usize;
        }
        if depth < 12 {
            if let Some(pre) = container_prefix(&typ, in_ilst) {
                node.pre = Some(pre);
                let cstart = p + 8 + pre;
                if cstart <= node.end {
                    let (kids, slack) = parse_boxes(d, cstart, node.end, &typ == b"ilst", depth + 1);
                    node.kids = kids;
                    node.slack = slack;
                } else {
                    node.slack = 0;
                    node.bad = true;
                }
            }
        }
        let over = node.over;
        let nend = node.end;
        out.push(node);
        if over {
            return (out, 0);
        }
        p = nend;
    }
    (out, end - p)
}

impl BoxNode {
    pub fn to_json(&self) -> Value {
        let mut m = Map::new();
        m.insert("t".into(), json!(type_str(&self.typ)));
        m.insert("off".into(), json!(self.off));
        m.insert("sz".into(), json!(self.size.min(BIG)));
        m.insert("len".into(), json!(self.end - self.off));
        if let Some(pre) = self.pre {
            m.insert("pre".into(), json!(pre));
            m.insert("kids".into(), Value::Array(self.kids.iter().map(|k| k.to_json()).collect()));
            m.insert("slack".into(), json!(self.slack));
        }
        m.insert("over".into(), json!(self.over));
        m.insert("bad".into(), json!(self.bad));
        Value::Object(m)
    }
    pub fn child(&self, t: &[u8; 4]) -> Option<&BoxNode> {
        self.kids.iter().find(|k| &k.typ == t)
    }
    pub fn payload<'a>(&self, d: &'a [u8]) -> &'a [u8] {
        let s = (self.off + 8).min(self.end);
        &d[s..self.end]
    }
}

fn bytes_json(b: &[u8]) -> Value {
    Value::Array(b.iter().map(|&x| json!(x)).collect())
}

/// Quotient/remainder logging of a time-valued field with respect to the instance unit.
pub struct Unit(pub u64);
impl Unit {
    pub fn q(&self, v: u64) -> u64 {
        v / self.0
    }
    pub fn r(&self, v: u64) -> u64 {
        v % self.0
    }
}

const MAX_SAMPLES: usize = 25_000;

#[derive(Default)]
pub struct Facets {
    pub bytes: bool,
    pub tree: bool,
    pub raw: bool,
    pub timing: bool,
}

impl Facets {
    pub fn all() -> Self {
        Facets { bytes: true, tree: true, raw: true, timing: true }
    }
    pub fn parse(s: &str) -> Self {
        let mut f = Facets::default();
        for p in s.split(',') {
            match p {
                "bytes" => f.bytes = true,
                "tree" => f.tree = true,
                "raw" => f.raw = true,
                "timing" => f.timing = true,
                "all" => f = Facets::all(),
                _ => {}
            }
        }
        f
    }
}

fn collect_raw(d: &[u8], nodes: &[BoxNode], path: &str, out: &mut Vec<Value>) {
    let mut counts: std::collections::HashMap<[u8; 4], usize> = Default::default();
    for n in nodes {
        let c = counts.entry(n.typ).or_insert(0);
        let name = if &n.typ == b"trak" {
            format!("{}{}{}", path, type_str(&n.typ), *c)
        } else {
            format!("{}{}", path, type_str(&n.typ))
        };
        *c += 1;
        if n.pre.is_some() {
            // container: log its prefix bytes (sample-entry fields, full-box header, ...)
            let pre = n.pre.unwrap();
            let s = (n.off + 8).min(n.end);
            let e = (n.off + 8 + pre).min(n.end);
            if pre > 0 {
                out.push(json!({"p": name.clone(), "pre": bytes_json(&d[s..e])}));
            }
            collect_raw(d, &n.kids, &format!("{}.", name), out);
        } else if &n.typ != b"mdat" {
            let pl = n.payload(d);
            if pl.len() <= 140_000 {
                out.push(json!({"p": name, "b": bytes_json(pl)}));
            } else {
                out.push(json!({"p": name, "toolong": pl.len()}));
            }
        }
    }
}

struct Tables {
    stts: Vec<(u32, u32)>,
    ctts: Option<(u8, Vec<(u32, i64)>)>,
    stsc: Vec<(u32, u32, u32)>,
    stsz_uniform: u32,
    stsz_count: u32,
    stsz: Vec<u32>,
    chunk_offsets: Vec<u64>,
    stss: Option<Vec<u32>>,
    ok: bool,
}

fn read_tables(d: &[u8], stbl: &BoxNode) -> Tables {
    let mut t = Tables {
        stts: vec![],
        ctts: None,
        stsc: vec![],
        stsz_uniform: 0,
        stsz_count: 0,
        stsz: vec![],
        chunk_offsets: vec![],
        stss: None,
        ok: true,
    };
    for k in &stbl.kids {
        let p = k.payload(d);
        match &k.typ {
            b"stts" => {
                let n = be32(p, 4).unwrap_or(0) as usize;
                for i in 0..n.min(MAX_SAMPLES) {
                    match (be32(p, 8 + i * 8), be32(p, 12 + i * 8)) {
                        (Some(c), Some(dl)) => t.stts.push((c, dl)),
                        _ => {
                            t.ok = false;
                            break;
                        }
                    }
                }
            }
            b"ctts" => {
                let ver = p.first().copied().unwrap_or(0);
                let n = be32(p, 4).unwrap_or(0) as usize;
                let mut v = vec![];
                for i in 0..n.min(MAX_SAMPLES) {
                    match (be32(p, 8 + i * 8), be32(p, 12 + i * 8)) {
                        (Some(c), Some(o)) => {
                            let off = if ver == 0 { o as i64 } else { o as i32 as i64 };
                            v.push((c, off))
                        }
                        _ => {
                            t.ok = false;
                            break;
                        }
                    }
                }
                t.ctts = Some((ver, v));
            }
            b"stsc" => {
                let n = be32(p, 4).unwrap_or(0) as usize;
                for i in 0..n.min(MAX_SAMPLES) {
                    match (be32(p, 8 + i * 12), be32(p, 12 + i * 12), be32(p, 16 + i * 12)) {
                        (Some(a), Some(b), Some(c)) => t.stsc.push((a, b, c)),
                        _ => {
                            t.ok = false;
                            break;
                        }
                    }
                }
            }
            b"stsz" => {
                t.stsz_uniform = be32(p, 4).unwrap_or(0);
                t.stsz_count = be32(p, 8).unwrap_or(0);
                if t.stsz_uniform == 0 {
                    for i in 0..(t.stsz_count as usize).min(MAX_SAMPLES) {
                        match be32(p, 12 + i * 4) {
                            Some(s) => t.stsz.push(s),
                            None => {
                                t.ok = false;
                                break;
                            }
                        }
                    }
                }
            }
            b"stco" => {
                let n = be32(p, 4).unwrap_or(0) as usize;
                for i in 0..n.min(MAX_SAMPLES) {
                    match be32(p, 8 + i * 4) {
                        Some(o) => t.chunk_offsets.push(o as u64),
                        None => {
                            t.ok = false;
                            break;
                        }
                    }
                }
            }
            b"co64" => {
                let n = be32(p, 4).unwrap_or(0) as usize;
                for i in 0..n.min(MAX_SAMPLES) {
                    match be64(p, 8 + i * 8) {
                        Some(o) => t.chunk_offsets.push(o),
                        None => {
                            t.ok = false;
                            break;
                        }
                    }
                }
            }
            b"stss" => {
                let n = be32(p, 4).unwrap_or(0) as usize;
                let mut v = vec![];
                for i in 0..n.min(MAX_SAMPLES) {
                    match be32(p, 8 + i * 4) {
                        Some(o) => v.push(o),
                        None => {
                            t.ok = false;
                            break;
                        }
                    }
                }
                t.stss = Some(v);
            }
            _ => {}
        }
    }
    t
}

/// Resolve (offset, size) of every sample from stsc + chunk offsets + stsz for any chunking.
fn resolve_samples(t: &Tables) -> (Vec<(u64, u32)>, bool) {
    let n = t.stsz_count as usize;
    let n = n.min(MAX_SAMPLES);
    let size_of = |i: usize| -> Option<u32> {
        if t.stsz_uniform != 0 {
            Some(t.stsz_uniform)
        } else {
            t.stsz.get(i).copied()
        }
    };
    let mut out = Vec::with_capacity(n);
    let mut sample = 0usize;
    let nchunks = t.chunk_offsets.len();
    let mut complete = true;
    'outer: for ci in 0..nchunks {
        let chunk_no = (ci + 1) as u32;
        // find the stsc run this chunk belongs to
        let mut spc = 0u32;
        for (idx, &(first, per, _)) in t.stsc.iter().enumerate() {
            let next_first = t.stsc.get(idx + 1).map(|e| e.0).unwrap_or(u32::MAX);
            if chunk_no >= first && chunk_no < next_first {
                spc = per;
                break;
            }
        }
        let mut off = t.chunk_offsets[ci];
        for _ in 0..spc {
            if sample >= n {
                // more sample slots addressed by chunks than stsz has entries
                complete = false;
                break 'outer;
            }
            match size_of(sample) {
                Some(sz) => {
                    out.push((off, sz));
                    off += sz as u64;
                    sample += 1;
                }
                None => {
                    complete = false;
                    break 'outer;
                }
            }
        }
    }
    if sample != n {
        complete = false;
    }
    (out, complete)
}

pub const BIG: u64 = 1_000_000_000;

fn lim(v: u64) -> Value {
    // integers are clamped to 10^9: TLC's ints are 32-bit and the specification adds such values (two clamped values
    // still add without overflow; sums and products saturate there); no judged instance comes near it, wide time
    // fields go through the unit embedding instead.
    json!(v.min(BIG))
}

/// Projections have a fixed record shape: a field whose box is missing from the file gets a neutral default and is
/// named in "absent", so that the specification can describe any output (a missing box is reported there).
fn fill_defaults(m: &mut Map<String, Value>, defaults: &[(&str, Value)]) {
    let mut absent = vec![];
    for (k, v) in defaults {
        if !m.contains_key(*k) {
            m.insert((*k).to_string(), v.clone());
            absent.push(json!(*k));
        }
    }
    m.insert("absent".into(), Value::Array(absent));
}

fn track_json(d: &[u8], trak: &BoxNode, unit: &Unit, f: &Facets) -> Value {
    let mut m = Map::new();
    let tkhd = trak.child(b"tkhd");
    let mdia = trak.child(b"mdia");
    let mdhd = mdia.and_then(|x| x.child(b"mdhd"));
    let hdlr = mdia.and_then(|x| x.child(b"hdlr"));
    let minf = mdia.and_then(|x| x.child(b"minf"));
    let stbl = minf.and_then(|x| x.child(b"stbl"));
    if let Some(tk) = tkhd {
        let p = tk.payload(d);
        let ver = p.first().copied().unwrap_or(0);
        let id_off = if ver == 1 { 20 } else { 12 };
        m.insert("tid".into(), lim(be32(p, id_off).unwrap_or(0) as u64));
    }
    if let Some(h) = hdlr {
        let p = h.payload(d);
        if p.len() >= 12 {
            let mut t = [0u8; 4];
            t.copy_from_slice(&p[8..12]);
            m.insert("hdlr".into(), json!(type_str(&t)));
        }
    }
    if let Some(md) = mdhd {
        let p = md.payload(d);
        let ver = p.first().copied().unwrap_or(0);
        let (ts, dur) = if ver == 1 {
            (be32(p, 20).unwrap_or(0) as u64, be64(p, 24).unwrap_or(0))
        } else {
            (be32(p, 12).unwrap_or(0) as u64, be32(p, 16).unwrap_or(0) as u64)
        };
        m.insert("ts".into(), lim(ts));
        m.insert("mdur".into(), lim(unit.q(dur)));
        m.insert("mdurr".into(), lim(unit.r(dur)));
        let lang_off = if ver == 1 { 32 } else { 20 };
        if let Some(l) = be16(p, lang_off) {
            m.insert("lang".into(), json!([((l >> 10) & 0x1f), ((l >> 5) & 0x1f), (l & 0x1f)]));
            m.insert("langpad".into(), json!(l >> 15));
        }
    }
    // edit list
    if let Some(elst) = trak.child(b"edts").and_then(|e| e.child(b"elst")) {
        let p = elst.payload(d);
        let ver = p.first().copied().unwrap_or(0);
        let n = be32(p, 4).unwrap_or(0) as usize;
        let mut es = vec![];
        for i in 0..n.min(16) {
            if ver == 1 {
                let o = 8 + i * 20;
                if let (Some(sd), Some(mt)) = (be64(p, o), be64(p, o + 8)) {
                    let mt = mt as i64;
                    es.push(json!({"sd": lim(sd), "empty": mt == -1, "mt": lim(unit.q(mt.max(0) as u64)), "mtr": lim(unit.r(mt.max(0) as u64))}));
                }
            } else {
                let o = 8 + i * 12;
                if let (Some(sd), Some(mt)) = (be32(p, o), be32(p, o + 4)) {
                    let mt = mt as i32 as i64;
                    es.push(json!({"sd": lim(sd as u64), "empty": mt == -1, "mt": lim(unit.q(mt.max(0) as u64)), "mtr": lim(unit.r(mt.max(0) as u64))}));
                }
            }
        }
        m.insert("elst".into(), Value::Array(es));
    }
    if let Some(stbl) = stbl {
        let t = read_tables(d, stbl);
        // stsd entry
        if let Some(stsd) = stbl.child(b"stsd") {
            let p = stsd.payload(d);
            m.insert("stsdn".into(), lim(be32(p, 4).unwrap_or(0) as u64));
            if let Some(e) = stsd.kids.first() {
                m.insert("entry".into(), json!(type_str(&e.typ)));
            }
        }
        let (res, complete) = resolve_samples(&t);
        let n = t.stsz_count as usize;
        m.insert("n".into(), lim(n as u64));
        let stts_n: u64 = t.stts.iter().map(|e| e.0 as u64).sum();
        m.insert("sttsn".into(), lim(stts_n));
        m.insert("sttsruns".into(), lim(t.stts.len() as u64));
        match &t.ctts {
            Some((ver, es)) => {
                m.insert("ctts".into(), json!(true));
                m.insert("cttsv".into(), json!(ver));
                m.insert("cttsn".into(), lim(es.iter().map(|e| e.0 as u64).sum()));
            }
            None => {
                m.insert("ctts".into(), json!(false));
            }
        }
        m.insert("stss".into(), json!(t.stss.is_some()));
        if let Some(s) = &t.stss {
            m.insert("stssl".into(), Value::Array(s.iter().map(|&x| lim(x as u64)).collect()));
        }
        m.insert("chunks".into(), lim(t.chunk_offsets.len() as u64));
        m.insert("resolved".into(), lim(res.len() as u64));
        m.insert("complete".into(), json!(complete && t.ok));
        // expand stts / ctts
        let mut durs: Vec<u64> = Vec::new();
        'a: for &(c, dl) in &t.stts {
            for _ in 0..c {
                if durs.len() >= MAX_SAMPLES {
                    break 'a;
                }
                durs.push(dl as u64);
            }
        }
        let mut ctss: Vec<i64> = Vec::new();
        if let Some((_, es)) = &t.ctts {
            'b: for &(c, o) in es {
                for _ in 0..c {
                    if ctss.len() >= MAX_SAMPLES {
                        break 'b;
                    }
                    ctss.push(o);
                }
            }
        }
        let sync_set: Option<std::collections::HashSet<u32>> =
            t.stss.as_ref().map(|v| v.iter().copied().collect());
        let mut ss = Vec::new();
        for i in 0..n.min(MAX_SAMPLES) {
            let mut s = Map::new();
            if let Some(&(off, sz)) = res.get(i) {
                s.insert("o".into(), lim(off));
                s.insert("z".into(), lim(sz as u64));
                if f.bytes {
                    let e = off as u128 + sz as u128;
                    if e <= d.len() as u128 {
                        s.insert("b".into(), bytes_json(&d[off as usize..(off as usize + sz as usize)]));
                    } else {
                        s.insert("oob".into(), json!(true));
                    }
                }
            } else {
                s.insert("unres".into(), json!(true));
            }
            let sync = match &sync_set {
                Some(set) => set.contains(&((i + 1) as u32)),
                None => true,
            };
            s.insert("k".into(), json!(sync));
            if f.timing {
                if let Some(&du) = durs.get(i) {
                    s.insert("d".into(), lim(unit.q(du)));
                    if unit.0 != 1 {
                        s.insert("dr".into(), lim(unit.r(du)));
                    }
                }
                if t.ctts.is_some() {
                    if let Some(&c) = ctss.get(i) {
                        // signed quotient/remainder: sign kept separately
                        let a = c.unsigned_abs();
                        s.insert("c".into(), json!((unit.q(a).min(BIG) as i64) * if c < 0 { -1 } else { 1 }));
                        if unit.0 != 1 {
                            s.insert("cr".into(), lim(unit.r(a)));
                        }
                    }
                } else {
                    s.insert("c".into(), json!(0));
                }
            }
            ss.push(Value::Object(s));
        }
        m.insert("s".into(), Value::Array(ss));
    }
    fill_defaults(
        &mut m,
        &[("tid", json!(0)), ("hdlr", json!("")), ("ts", json!(0)), ("mdur", json!(0)), ("mdurr", json!(0)), ("lang", json!([0, 0, 0])),
          ("langpad", json!(0)), ("stsdn", json!(0)), ("entry", json!("")), ("n", json!(0)), ("sttsn", json!(0)), ("sttsruns", json!(0)),
          ("ctts", json!(false)), ("stss", json!(false)), ("chunks", json!(0)), ("resolved", json!(0)), ("complete", json!(false)), ("s", json!([]))],
    );
    Value::Object(m)
}

/// Project a complete progressive file (or init segment).
pub fn project_file(d: &[u8], unit: &Unit, f: &Facets) -> Value {
    let (top, slack) = parse_boxes(d, 0, d.len(), false, 0);
    let mut m = Map::new();
    m.insert("len".into(), lim(d.len() as u64));
    m.insert("topslack".into(), lim(slack as u64));
    m.insert(
        "top".into(),
        Value::Array(top.iter().map(|n| json!(type_str(&n.typ))).collect()),
    );
    if f.tree {
        m.insert("tree".into(), Value::Array(top.iter().map(|n| n.to_json()).collect()));
    }
    // mdat payload range(s)
    let mdats: Vec<Value> = top
        .iter()
        .filter(|n| &n.typ == b"mdat")
        .map(|n| json!({"off": n.off, "po": n.off + 8, "pl": (n.end - n.off).saturating_sub(8)}))
        .collect();
    m.insert("mdat".into(), Value::Array(mdats));
    if let Some(moov) = top.iter().find(|n| &n.typ == b"moov") {
        if let Some(mvhd) = moov.child(b"mvhd") {
            let p = mvhd.payload(d);
            let ver = p.first().copied().unwrap_or(0);
            let (ts, dur, next) = if ver == 1 {
                (be32(p, 20).unwrap_or(0) as u64, be64(p, 24).unwrap_or(0), be32(p, 108).unwrap_or(0))
            } else {
                (be32(p, 12).unwrap_or(0) as u64, be32(p, 16).unwrap_or(0) as u64, be32(p, 96).unwrap_or(0))
            };
            m.insert("mvts".into(), lim(ts));
            // movie duration is in movie-timescale units; the unit of an instance is in media ticks,
            // so log the duration scaled back to ticks when the timescale divides 90000.
            m.insert("mvdur".into(), lim(dur));
            if unit.0 != 1 && ts > 0 && 90000 % ts == 0 {
                let k = 90000 / ts;
                // dur*k ticks; quotient and remainder with respect to the unit (u128: no overflow)
                let ticks = dur as u128 * k as u128;
                m.insert("mvdurq".into(), lim((ticks / unit.0 as u128) as u64));
                m.insert("mvdurr".into(), lim((ticks % unit.0 as u128).min(BIG as u128) as u64));
            }
            m.insert("mvnext".into(), lim(next as u64));
        }
        let tracks: Vec<Value> = moov
            .kids
            .iter()
            .filter(|k| &k.typ == b"trak")
            .map(|t| track_json(d, t, unit, f))
            .collect();
        m.insert("tracks".into(), Value::Array(tracks));
        m.insert("udta".into(), json!(moov.child(b"udta").is_some()));
    }
    if f.raw {
        let mut raw = Vec::new();
        collect_raw(d, &top, "", &mut raw);
        m.insert("raw".into(), Value::Array(raw));
    }
    fill_defaults(&mut m, &[("mvts", json!(0)), ("mvdur", json!(0)), ("mvnext", json!(0)), ("tracks", json!([])), ("udta", json!(false))]);
    Value::Object(m)
}

/// Project a media segment (moof + mdat).
pub fn project_segment(d: &[u8], unit: &Unit, f: &Facets) -> Value {
    let (top, slack) = parse_boxes(d, 0, d.len(), false, 0);
    let mut m = Map::new();
    m.insert("len".into(), lim(d.len() as u64));
    m.insert("topslack".into(), lim(slack as u64));
    m.insert(
        "top".into(),
        Value::Array(top.iter().map(|n| json!(type_str(&n.typ))).collect()),
    );
    if f.tree {
        m.insert("tree".into(), Value::Array(top.iter().map(|n| n.to_json()).collect()));
    }
    if f.raw {
        let mut raw = Vec::new();
        collect_raw(d, &top, "", &mut raw);
        m.insert("raw".into(), Value::Array(raw));
    }
    let mdats: Vec<Value> = top
        .iter()
        .filter(|n| &n.typ == b"mdat")
        .map(|n| json!({"off": n.off, "po": n.off + 8, "pl": (n.end - n.off).saturating_sub(8)}))
        .collect();
    m.insert("mdat".into(), Value::Array(mdats));
    if let Some(moof) = top.iter().find(|n| &n.typ == b"moof") {
        m.insert("moofoff".into(), lim(moof.off as u64));
        if let Some(mfhd) = moof.child(b"mfhd") {
            let p = mfhd.payload(d);
            m.insert("seq".into(), lim(be32(p, 4).unwrap_or(0) as u64));
        }
        if let Some(traf) = moof.child(b"traf") {
            // defaults a run may inherit from the track fragment header
            let mut def_dur: Option<u32> = None;
            let mut def_size: Option<u32> = None;
            let mut def_flags: Option<u32> = None;
            let mut base_off: Option<u64> = None;
            if let Some(tfhd) = traf.child(b"tfhd") {
                let p = tfhd.payload(d);
                let fl = be32(p, 0).unwrap_or(0) & 0xff_ffff;
                m.insert("tfhdflags".into(), lim(fl as u64));
                m.insert("tfhdtid".into(), lim(be32(p, 4).unwrap_or(0) as u64));
                let mut o = 8;
                if fl & 0x1 != 0 {
                    base_off = be64(p, o);
                    o += 8;
                }
                if fl & 0x2 != 0 {
                    o += 4;
                }
                if fl & 0x8 != 0 {
                    def_dur = be32(p, o);
                    o += 4;
                }
                if fl & 0x10 != 0 {
                    def_size = be32(p, o);
                    o += 4;
                }
                if fl & 0x20 != 0 {
                    def_flags = be32(p, o);
                }
            }
            if let Some(tfdt) = traf.child(b"tfdt") {
                let p = tfdt.payload(d);
                let ver = p.first().copied().unwrap_or(0);
                let v = if ver == 1 { be64(p, 4).unwrap_or(0) } else { be32(p, 4).unwrap_or(0) as u64 };
                m.insert("tfdtv".into(), json!(ver));
                m.insert("tfdt".into(), lim(unit.q(v)));
                m.insert("tfdtr".into(), lim(unit.r(v)));
            }
            if let Some(trun) = traf.child(b"trun") {
                let p = trun.payload(d);
                let vf = be32(p, 0).unwrap_or(0);
                let ver = (vf >> 24) as u8;
                let flags = vf & 0xff_ffff;
                let n = be32(p, 4).unwrap_or(0) as usize;
                let mut o = 8;
                let mut data_off: i64 = 0;
                m.insert("trunv".into(), json!(ver));
                m.insert("trunflags".into(), lim(flags as u64));
                m.insert("trunn".into(), lim(n as u64));
                if flags & 1 != 0 {
                    data_off = be32(p, o).unwrap_or(0) as i32 as i64;
                    o += 4;
                }
                let mut first_flags: Option<u32> = None;
                if flags & 4 != 0 {
                    first_flags = be32(p, o);
                    o += 4;
                }
                m.insert("dataoff".into(), json!(data_off.clamp(-(BIG as i64), BIG as i64)));
                // data offsets are relative to the moof unless the header gives an explicit base offset
                let base = match base_off {
                    Some(b) => b as i64,
                    None => moof.off as i64,
                };
                let mut pos = base + data_off;
                let mut idx = 0usize;
                let mut ss = vec![];
                let mut parsed = true;
                for _ in 0..n.min(MAX_SAMPLES) {
                    let mut s = Map::new();
                    let mut dur: Option<u32> = def_dur;
                    if flags & 0x100 != 0 {
                        dur = be32(p, o);
                        if dur.is_none() {
                            parsed = false;
                        }
                        o += 4;
                    }
                    if let Some(v) = dur {
                        s.insert("d".into(), lim(unit.q(v as u64)));
                        if unit.0 != 1 {
                            s.insert("dr".into(), lim(unit.r(v as u64)));
                        }
                    }
                    let mut size = def_size.unwrap_or(0);
                    if flags & 0x200 != 0 {
                        match be32(p, o) {
                            Some(v) => size = v,
                            None => parsed = false,
                        }
                        o += 4;
                    }
                    s.insert("z".into(), lim(size as u64));
                    let mut sflags: Option<u32> = if idx == 0 && first_flags.is_some() { first_flags } else { def_flags };
                    if flags & 0x400 != 0 {
                        sflags = be32(p, o);
                        if sflags.is_none() {
                            parsed = false;
                        }
                        o += 4;
                    }
                    if let Some(v) = sflags {
                        s.insert("nonsync".into(), json!((v >> 16) & 1 == 1));
                        s.insert("fl".into(), bytes_json(&v.to_be_bytes()));
                    }
                    if flags & 0x800 == 0 {
                        // no composition-offset column: every offset of the run is zero
                        s.insert("c".into(), json!(0));
                    }
                    idx += 1;
                    if flags & 0x800 != 0 {
                        match be32(p, o) {
                            Some(v) => {
                                let c: i64 = if ver == 0 { v as i64 } else { v as i32 as i64 };
                                let a = c.unsigned_abs();
                                s.insert("c".into(), json!((unit.q(a).min(BIG) as i64) * if c < 0 { -1 } else { 1 }));
                                if unit.0 != 1 {
                                    s.insert("cr".into(), lim(unit.r(a)));
                                }
                            }
                            None => parsed = false,
                        }
                        o += 4;
                    }
                    if !parsed {
                        break;
                    }
                    s.insert("o".into(), json!(pos.clamp(-1, BIG as i64)));
                    if f.bytes {
                        if pos >= 0 && (pos as u128 + size as u128) <= d.len() as u128 {
                            s.insert("b".into(), bytes_json(&d[pos as usize..pos as usize + size as usize]));
                        } else {
                            s.insert("oob".into(), json!(true));
                        }
                    }
                    pos += size as i64;
                    ss.push(Value::Object(s));
                }
                m.insert("parsed".into(), json!(parsed));
                m.insert("s".into(), Value::Array(ss));
            }
        }
    }
    fill_defaults(
        &mut m,
        &[("moofoff", json!(0)), ("seq", json!(0)), ("tfhdflags", json!(0)), ("tfhdtid", json!(0)), ("tfdtv", json!(0)), ("tfdt", json!(0)),
          ("tfdtr", json!(0)), ("trunv", json!(0)), ("trunflags", json!(0)), ("trunn", json!(0)), ("dataoff", json!(0)), ("parsed", json!(false)),
          ("s", json!([]))],
    );
    Value::Object(m)
}
