//! Exhaustive creation-date table (C18): for every day of a range, a muxer with that creation time
//! is finished and the (c)day item found in the file is logged.  TLC checks the enumeration and the
//! expected ISO-8601 string (Meta.tla).
use crate::exec::{bytes_json, catch};
use crate::out::TraceWriter;
use muxide::api::{Metadata, MuxerBuilder, VideoCodec};
use serde_json::json;

fn find_day_item(d: &[u8]) -> Option<Vec<u8>> {
    // independent of muxide: walk moov/udta/meta(+4)/ilst/©day/data
    fn kids(d: &[u8], s: usize, e: usize) -> Vec<([u8; 4], usize, usize)> {
        let mut v = vec![];
        let mut p = s;
        while p + 8 <= e {
            let sz = u32::from_be_bytes([d[p], d[p + 1], d[p + 2], d[p + 3]]) as usize;
            if sz < 8 || p + sz > e {
                break;
            }
            let mut t = [0u8; 4];
            t.copy_from_slice(&d[p + 4..p + 8]);
            v.push((t, p + 8, p + sz));
            p += sz;
        }
        v
    }
    let find = |v: &Vec<([u8; 4], usize, usize)>, t: &[u8; 4]| v.iter().find(|x| &x.0 == t).map(|x| (x.1, x.2));
    let top = kids(d, 0, d.len());
    let (ms, me) = find(&top, b"moov")?;
    let (us, ue) = find(&kids(d, ms, me), b"udta")?;
    let (mts, mte) = find(&kids(d, us, ue), b"meta")?;
    let (is, ie) = find(&kids(d, mts + 4, mte), b"ilst")?;
    let (ds, de) = find(&kids(d, is, ie), b"\xa9day")?;
    let (das, dae) = find(&kids(d, ds, de), b"data")?;
    if dae < das + 8 {
        return None;
    }
    Some(d[das + 8..dae].to_vec())
}

pub fn run(from: u64, to: u64, stride: u64, out: &str, shards: usize) -> u64 {
    std::fs::create_dir_all(out).unwrap();
    let mut handles = vec![];
    for s in 0..shards {
        let out = out.to_string();
        handles.push(std::thread::spawn(move || {
            crate::exec::install_panic_hook();
            let mut w = TraceWriter::create(&format!("{}/shard_{}.ndjson", out, s));
            w.write(&json!({"ev": "datehdr", "from": from, "to": to, "stride": stride, "base": s, "shards": shards}));
            let mut k = s as u64;
            loop {
                let day = from + k * stride;
                if day > to {
                    break;
                }
                let sod = (day * 7919) % 86400;
                let secs = day * 86400 + sod;
                let r = catch(|| {
                    let mut buf: Vec<u8> = Vec::new();
                    {
                        let m = MuxerBuilder::new(&mut buf)
                            .video(VideoCodec::H264, 640, 480, 30.0)
                            .with_metadata(Metadata::new().with_creation_time(secs))
                            .build()
                            .unwrap();
                        m.finish().unwrap();
                    }
                    find_day_item(&buf)
                });
                match r {
                    Ok(Some(b)) => w.write(&json!({"ev": "date", "k": k, "days": day, "sod": sod, "item": bytes_json(&b), "var": ""})),
                    Ok(None) => w.write(&json!({"ev": "date", "k": k, "days": day, "sod": sod, "missing": true, "var": ""})),
                    Err(msg) => w.write(&json!({"ev": "date", "k": k, "days": day, "sod": sod, "missing": true, "var": "panic", "msg": msg})),
                }
                k += shards as u64;
            }
            w.write(&json!({"ev": "dateend"}));
            w.finish() as u64
        }));
    }
    handles.into_iter().map(|h| h.join().unwrap()).sum()
}
