pub mod exec;
pub mod reader;
pub mod out;
pub mod pairs;
pub mod fnt;
pub mod modes;
pub mod cli;
pub mod valtab;
