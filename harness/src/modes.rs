//! C17: the same behaviour executed in different modes (other sink types, other threads, dirty
//! thread-local state, concurrently, moved between threads, alias paths).  Only outputs are
//! compared; the comparisons are logged as facts for the trace specification.
use crate::exec::{self, bytes_of, tok_to_f64, BuildStyle, Cfg, RunOpts, RunResult, SharedSink};
use crate::pairs;
use muxide::api::{Muxer, MuxerError, MuxerStats};
use serde_json::{json, Value};
use std::io::Write;

fn gs<'a>(v: &'a Value, k: &str) -> &'a str {
    v.get(k).and_then(|x| x.as_str()).unwrap_or("")
}

/// Execute calls on an already built muxer with any writer type; returns outcomes and stats.
fn drive<W: Write>(mux: Muxer<W>, cfg: &Cfg, calls: &[Value]) -> (Vec<(bool, String)>, Option<MuxerStats>) {
    let mut outcomes = Vec::new();
    let mut stats = None;
    let mut mux = Some(mux);
    for c in calls {
        if mux.is_none() {
            break;
        }
        let data = bytes_of(c.get("data").unwrap_or(&Value::Null));
        let r: Result<Result<(), MuxerError>, String> = match gs(c, "op") {
            "wv" => {
                let m = mux.as_mut().unwrap();
                exec::catch(|| m.write_video(tok_to_f64(&c["pts"], cfg), &data, c["key"].as_bool().unwrap_or(false)))
            }
            "wvd" => {
                let m = mux.as_mut().unwrap();
                exec::catch(|| m.write_video_with_dts(tok_to_f64(&c["pts"], cfg), tok_to_f64(&c["dts"], cfg), &data, c["key"].as_bool().unwrap_or(false)))
            }
            "wa" => {
                let m = mux.as_mut().unwrap();
                exec::catch(|| m.write_audio(tok_to_f64(&c["pts"], cfg), &data))
            }
            "ev" => {
                let m = mux.as_mut().unwrap();
                exec::catch(|| m.encode_video(&data, c["ms"].as_u64().unwrap_or(0) as u32))
            }
            "ea" => {
                let m = mux.as_mut().unwrap();
                exec::catch(|| m.encode_audio(&data, c["n"].as_u64().unwrap_or(0) as u32))
            }
            "fin" => match gs(c, "how") {
                "in_place" => {
                    let m = mux.as_mut().unwrap();
                    exec::catch(|| m.finish_in_place())
                }
                "in_place_stats" => {
                    let m = mux.as_mut().unwrap();
                    exec::catch(|| m.finish_in_place_with_stats().map(|s| stats = Some(s)))
                }
                "finish_with_stats" => {
                    let m = mux.take().unwrap();
                    exec::catch(|| m.finish_with_stats().map(|s| stats = Some(s)))
                }
                "flush" => {
                    let m = mux.take().unwrap();
                    exec::catch(|| m.flush())
                }
                _ => {
                    let m = mux.take().unwrap();
                    exec::catch(|| m.finish())
                }
            },
            _ => Ok(Ok(())),
        };
        match r {
            Ok(Ok(())) => outcomes.push((true, String::new())),
            Ok(Err(e)) => outcomes.push((false, exec::variant_name(&e).to_string())),
            Err(_) => {
                outcomes.push((false, "panic".into()));
                break;
            }
        }
    }
    (outcomes, stats)
}

fn result_of(outcomes: Vec<(bool, String)>, stats: Option<MuxerStats>, bytes: Vec<u8>) -> RunResult {
    let crashed = outcomes.iter().any(|o| o.1 == "panic");
    RunResult { events: vec![], outcomes, stats, bytes, crashed, writes: vec![] }
}

fn via_vec(cfg: &Cfg, calls: &[Value]) -> Option<RunResult> {
    // W = &mut Vec<u8>
    let mut buf: Vec<u8> = Vec::new();
    let built = build_with(cfg, &mut buf);
    let (o, s) = match built {
        Some(m) => drive(m, cfg, calls),
        None => return None,
    };
    Some(result_of(o, s, buf))
}

fn build_with<W: Write>(cfg: &Cfg, w: W) -> Option<Muxer<W>> {
    use muxide::api::MuxerBuilder;
    let j = &cfg.json;
    let mut b = MuxerBuilder::new(w);
    let g = |k: &str| j.get(k).and_then(|x| x.as_u64()).unwrap_or(0);
    b = b.video(cfg.vcodec(), g("w") as u32, g("h") as u32, 30.0);
    if cfg.acodec() != muxide::api::AudioCodec::None {
        b = b.audio(cfg.acodec(), g("rate") as u32, g("ch") as u16);
    }
    if let Some(md) = cfg.metadata() {
        b = b.with_metadata(md);
    }
    if let Some(f) = j.get("fast").and_then(|x| x.as_bool()) {
        b = b.with_fast_start(f);
    }
    b.build().ok()
}

fn via_cursor(cfg: &Cfg, calls: &[Value]) -> Option<RunResult> {
    let mut cur = std::io::Cursor::new(Vec::<u8>::new());
    let (o, s) = match build_with(cfg, &mut cur) {
        Some(m) => drive(m, cfg, calls),
        None => return None,
    };
    Some(result_of(o, s, cur.into_inner()))
}

fn via_file(cfg: &Cfg, calls: &[Value], dir: &str, id: u64) -> Option<RunResult> {
    let path = format!("{}/c17_{}_{}.mp4", dir, std::process::id(), id);
    let f = std::fs::File::create(&path).ok()?;
    let mut bw = std::io::BufWriter::with_capacity(13, f);
    let r = match build_with(cfg, &mut bw) {
        Some(m) => Some(drive(m, cfg, calls)),
        None => None,
    };
    let _ = bw.flush();
    drop(bw);
    let bytes = std::fs::read(&path).unwrap_or_default();
    let _ = std::fs::remove_file(&path);
    r.map(|(o, s)| result_of(o, s, bytes))
}

/// The muxer (with a Send sink) is moved to a fresh thread for every call.
fn via_moving(cfg: &Cfg, calls: &[Value]) -> Option<RunResult> {
    let sink = SharedSink::new();
    let mut mux = Some(build_with(cfg, sink.clone())?);
    let mut outcomes = Vec::new();
    let mut stats = None;
    for c in calls {
        let m = match mux.take() {
            Some(m) => m,
            None => break,
        };
        let cfg2 = Cfg { json: cfg.json.clone() };
        let c2 = c.clone();
        let h = std::thread::spawn(move || {
            exec::install_panic_hook();
            let consuming = c2.get("op").and_then(|x| x.as_str()) == Some("fin")
                && !matches!(c2.get("how").and_then(|x| x.as_str()), Some("in_place") | Some("in_place_stats"));
            if consuming {
                let (o, s) = drive(m, &cfg2, std::slice::from_ref(&c2));
                (None, o, s)
            } else {
                // run the single call in place and hand the muxer back
                let mut holder = Some(m);
                let mm = holder.as_mut().unwrap();
                let (o, s) = drive_in_place(mm, &cfg2, &c2);
                (holder, o, s)
            }
        });
        match h.join() {
            Ok((back, o, s)) => {
                mux = back;
                outcomes.extend(o);
                if s.is_some() {
                    stats = s;
                }
            }
            Err(_) => {
                outcomes.push((false, "panic".into()));
                break;
            }
        }
    }
    Some(result_of(outcomes, stats, sink.bytes()))
}

fn drive_in_place<W: Write>(m: &mut Muxer<W>, cfg: &Cfg, c: &Value) -> (Vec<(bool, String)>, Option<MuxerStats>) {
    let data = bytes_of(c.get("data").unwrap_or(&Value::Null));
    let mut stats = None;
    let r: Result<Result<(), MuxerError>, String> = match gs(c, "op") {
        "wv" => exec::catch(|| m.write_video(tok_to_f64(&c["pts"], cfg), &data, c["key"].as_bool().unwrap_or(false))),
        "wvd" => exec::catch(|| m.write_video_with_dts(tok_to_f64(&c["pts"], cfg), tok_to_f64(&c["dts"], cfg), &data, c["key"].as_bool().unwrap_or(false))),
        "wa" => exec::catch(|| m.write_audio(tok_to_f64(&c["pts"], cfg), &data)),
        "ev" => exec::catch(|| m.encode_video(&data, c["ms"].as_u64().unwrap_or(0) as u32)),
        "ea" => exec::catch(|| m.encode_audio(&data, c["n"].as_u64().unwrap_or(0) as u32)),
        "fin" => {
            if gs(c, "how") == "in_place_stats" {
                exec::catch(|| m.finish_in_place_with_stats().map(|s| stats = Some(s)))
            } else {
                exec::catch(|| m.finish_in_place())
            }
        }
        _ => Ok(Ok(())),
    };
    let o = match r {
        Ok(Ok(())) => (true, String::new()),
        Ok(Err(e)) => (false, exec::variant_name(&e).to_string()),
        Err(_) => (false, "panic".into()),
    };
    (vec![o], stats)
}

/// Rewrite the finish entry points of a behaviour (flush / finish / in place are the same step).
fn with_finish(calls: &[Value], how: &str) -> Vec<Value> {
    calls
        .iter()
        .map(|c| {
            if gs(c, "op") == "fin" {
                let stats = matches!(gs(c, "how"), "in_place_stats" | "finish_with_stats");
                let h = match (how, stats) {
                    ("consume", true) => "finish_with_stats",
                    ("consume", false) => "finish",
                    ("flush", false) => "flush",
                    ("flush", true) => "finish_with_stats",
                    (_, true) => "in_place_stats",
                    (_, false) => "in_place",
                };
                json!({"op": "fin", "how": h})
            } else {
                c.clone()
            }
        })
        .collect()
}

/// Only behaviours whose first finish is also their last call can be rewritten between the
/// consuming and the in-place entry points without changing what is observable afterwards.
fn ends_with_single_finish(calls: &[Value]) -> bool {
    let n = calls.iter().filter(|c| gs(c, "op") == "fin").count();
    n == 1 && calls.last().map(|c| gs(c, "op") == "fin").unwrap_or(false)
}

pub fn run_modes(base: u64, cfg: &Cfg, calls: &[Value], others: &[(Cfg, Vec<Value>)], workdir: &str, out: &mut Vec<Value>) -> RunResult {
    let opts = RunOpts { project: false, ..RunOpts::default() };
    let a = exec::run_instance(base, cfg, calls, &RunOpts::default());
    out.extend(a.events.iter().cloned());
    let mut cmp = |what: &str, b: Option<RunResult>| {
        if let Some(b) = b {
            if !a.crashed && !b.crashed {
                out.push(pairs::pair_same(base, "mode", what, &a, &b, None));
            }
        }
    };
    // (i) same thread again, after muxers of other codecs ran in between (thread-local log is dirty)
    for (oc, ocalls) in others {
        let _ = exec::run_instance(base + 7, oc, ocalls, &opts);
    }
    cmp("same-thread-again", Some(exec::run_instance(base + 1, cfg, calls, &opts)));
    // (i-bis) same thread again, after "sibling" muxers of the SAME configuration whose first video frame differs in
    // one byte (a changed parameter set, a changed slice): nothing a sibling saw may leak into this muxer.  Hidden
    // state keyed on one part X of the input and holding something derived from another part Y needs the sequence
    // [X' , .] [X, Y'] [X, Y] to show, so every ordered pair of byte positions (first 24 bytes) is run before the
    // instance is repeated.
    if let Some(fi) = calls.iter().position(|c| matches!(gs(c, "op"), "wv" | "wvd" | "ev")) {
        let orig = exec::bytes_of(&calls[fi]["data"]);
        let n = orig.len().min(24);
        let sib = |p: usize| -> Vec<Value> {
            let mut k2 = calls.to_vec();
            let mut d = orig.clone();
            d[p] ^= 0x10;
            k2[fi].as_object_mut().unwrap().insert("data".into(), exec::bytes_json(&d));
            k2
        };
        let sibs: Vec<Vec<Value>> = (0..n).map(sib).collect();
        let mut worst: Option<RunResult> = None;
        'outer: for p1 in 0..n {
            for p2 in 0..n {
                if p1 == p2 {
                    continue;
                }
                let _ = exec::run_instance(base + 7, cfg, &sibs[p1], &opts);
                let _ = exec::run_instance(base + 7, cfg, &sibs[p2], &opts);
                let b = exec::run_instance(base + 1, cfg, calls, &opts);
                let differs = b.crashed || b.bytes != a.bytes || b.outcomes != a.outcomes;
                if differs || worst.is_none() {
                    worst = Some(b);
                }
                if differs {
                    break 'outer;
                }
            }
        }
        if n == 1 {
            let _ = exec::run_instance(base + 7, cfg, &sibs[0], &opts);
            worst = Some(exec::run_instance(base + 1, cfg, calls, &opts));
        }
        cmp("same-thread-after-siblings", worst);
    }
    // (i') the same behaviour again after the wall clock has moved on by more than a second
    if cfg.json.get("meta").is_some() {
        std::thread::sleep(std::time::Duration::from_millis(1100));
        cmp("later-wall-clock-time", Some(exec::run_instance(base + 1, cfg, calls, &opts)));
    }
    // (ii) on a fresh thread
    {
        let (c2, k2) = (Cfg { json: cfg.json.clone() }, calls.to_vec());
        let h = std::thread::spawn(move || {
            exec::install_panic_hook();
            exec::run_instance(base + 2, &c2, &k2, &RunOpts { project: false, ..RunOpts::default() })
        });
        cmp("fresh-thread", h.join().ok());
    }
    // (iii) concurrently with other muxers on several threads
    {
        let mut hs = vec![];
        for t in 0..4u64 {
            let (c2, k2) = (Cfg { json: cfg.json.clone() }, calls.to_vec());
            let oth: Vec<(Value, Vec<Value>)> = others.iter().map(|(c, k)| (c.json.clone(), k.clone())).collect();
            hs.push(std::thread::spawn(move || {
                exec::install_panic_hook();
                let o = RunOpts { project: false, ..RunOpts::default() };
                if t % 2 == 1 {
                    for (oc, ok) in &oth {
                        let _ = exec::run_instance(0, &Cfg { json: oc.clone() }, ok, &o);
                    }
                }
                exec::run_instance(base + 3, &c2, &k2, &o)
            }));
        }
        for h in hs {
            cmp("concurrent-threads", h.join().ok());
        }
    }
    // (iv) other sink types
    cmp("sink-vec", via_vec(cfg, calls));
    cmp("sink-cursor", via_cursor(cfg, calls));
    cmp("sink-bufwriter-file", via_file(cfg, calls, workdir, base));
    cmp("sink-one-byte-writes", Some(exec::run_instance(base + 4, cfg, calls, &RunOpts { project: false, sink_chunk: 1, ..RunOpts::default() })));
    {
        // a sink that reports Interrupted on every third write call and accepts short writes in between
        use crate::exec::Resp;
        let mut script = Vec::new();
        for k in 0..3000 {
            script.push(match k % 3 {
                1 => Resp::Intr,
                2 => Resp::Accept(5),
                _ => Resp::Accept(usize::MAX),
            });
        }
        cmp("sink-interrupting", Some(exec::run_instance(base + 4, cfg, calls, &RunOpts { project: false, script, ..RunOpts::default() })));
    }
    cmp("muxer-moved-between-threads", via_moving(cfg, calls));
    // (v) alias paths
    cmp("builder-aliases", Some(exec::run_instance(base + 5, cfg, calls, &RunOpts { project: false, style: BuildStyle::Alias, ..RunOpts::default() })));
    if cfg.acodec() == muxide::api::AudioCodec::None {
        let mut j = cfg.json.clone();
        j.as_object_mut().unwrap().insert("audio_none_explicit".into(), json!(true));
        cmp("audio-codec-none", Some(exec::run_instance(base + 6, &Cfg { json: j }, calls, &opts)));
        for k in 0..4u64 {
            let mut j = cfg.json.clone();
            j.as_object_mut().unwrap().insert("audio_then_none".into(), json!(k));
            cmp("audio-codec-set-then-none", Some(exec::run_instance(base + 6, &Cfg { json: j }, calls, &opts)));
        }
    }
    if ends_with_single_finish(calls) {
        for how in ["consume", "flush", "inplace"] {
            let k2 = with_finish(calls, how);
            // stats presence may differ between entry points; compare bytes and outcomes only
            let b = exec::run_instance(base + 6, cfg, &k2, &opts);
            if !a.crashed && !b.crashed {
                let mut a2 = RunResult { events: vec![], outcomes: a.outcomes.clone(), stats: None, bytes: a.bytes.clone(), crashed: false, writes: vec![] };
                let b2 = RunResult { events: vec![], outcomes: b.outcomes.clone(), stats: None, bytes: b.bytes.clone(), crashed: false, writes: vec![] };
                a2.stats = None;
                out.push(pairs::pair_same(base, "alias", &format!("finish-{}", how), &a2, &b2, None));
            }
        }
    }
    a
}
