//! Executes call sequences against the real muxide library and records what happened.
//! Contains no expectations: outcomes, returned values and the projection of emitted bytes are
//! logged as facts; every judgement is made by the TLA+ trace specifications.

use crate::reader::{self, Facets, Unit};
use muxide::api::{
    AacProfile, AudioCodec, Metadata, Muxer, MuxerBuilder, MuxerError, MuxerStats, VideoCodec,
};
use serde_json::{json, Map, Value};
use std::io::{self, Write};
use std::sync::{Arc, Mutex};

// ------------------------------------------------------------------------------------------------
// panic capture
// ------------------------------------------------------------------------------------------------
thread_local! {
    static LAST_PANIC: std::cell::RefCell<String> = std::cell::RefCell::new(String::new());
}

pub fn install_panic_hook() {
    std::panic::set_hook(Box::new(|info| {
        let msg = if let Some(s) = info.payload().downcast_ref::<&str>() {
            s.to_string()
        } else if let Some(s) = info.payload().downcast_ref::<String>() {
            s.clone()
        } else {
            "<non-string panic>".to_string()
        };
        let loc = info
            .location()
            .map(|l| {
                let f = l.file();
                let f = f.rsplit("/src/").next().unwrap_or(f);
                format!("{}", f)
            })
            .unwrap_or_default();
        LAST_PANIC.with(|p| *p.borrow_mut() = format!("{} @{}", msg, loc));
    }));
}

/// Normalised, short panic message: digits collapsed so that the class does not depend on values.
pub fn norm_panic(s: &str) -> String {
    let mut out = String::new();
    let mut last_digit = false;
    for ch in s.chars() {
        if ch.is_ascii_digit() {
            if !last_digit {
                out.push('#');
            }
            last_digit = true;
        } else {
            last_digit = false;
            if ch == '"' || ch == '\\' || (ch as u32) < 0x20 || (ch as u32) > 0x7e {
                out.push('?');
            } else {
                out.push(ch);
            }
        }
        if out.len() >= 90 {
            break;
        }
    }
    out
}

pub fn catch<T>(f: impl FnOnce() -> T) -> Result<T, String> {
    LAST_PANIC.with(|p| p.borrow_mut().clear());
    match std::panic::catch_unwind(std::panic::AssertUnwindSafe(f)) {
        Ok(v) => Ok(v),
        Err(_) => Err(LAST_PANIC.with(|p| norm_panic(&p.borrow()))),
    }
}

// ------------------------------------------------------------------------------------------------
// recording / fault-injecting sink
// ------------------------------------------------------------------------------------------------
#[derive(Clone, Debug)]
pub enum Resp {
    /// accept at most k bytes (k >= 1)
    Accept(usize),
    Intr,
    Zero,
    Fail(io::ErrorKind),
}

#[derive(Default)]
pub struct SinkState {
    pub data: Vec<u8>,
    /// (offered length, response tag, accepted) per write call
    pub writes: Vec<(usize, String, usize)>,
    pub script: Vec<Resp>,
    /// response for write calls beyond the script (None = accept everything)
    pub after: Option<Resp>,
    pub flushes: usize,
    /// accept at most this many bytes per write call (0 = unlimited); for one-byte-at-a-time sinks
    pub chunk: usize,
    /// absolute byte offsets at which a write is cut short (accept only up to the offset)
    pub cuts: Vec<usize>,
}

#[derive(Clone)]
pub struct SharedSink(pub Arc<Mutex<SinkState>>);

impl SharedSink {
    pub fn new() -> Self {
        SharedSink(Arc::new(Mutex::new(SinkState::default())))
    }
    pub fn len(&self) -> usize {
        self.0.lock().unwrap().data.len()
    }
    pub fn bytes(&self) -> Vec<u8> {
        self.0.lock().unwrap().data.clone()
    }
}

impl Write for SharedSink {
    fn write(&mut self, buf: &[u8]) -> io::Result<usize> {
        let mut s = self.0.lock().unwrap();
        let idx = s.writes.len();
        let resp = if idx < s.script.len() {
            s.script[idx].clone()
        } else {
            match &s.after {
                Some(r) => r.clone(),
                None => Resp::Accept(usize::MAX),
            }
        };
        match resp {
            Resp::Accept(k) => {
                let mut n = buf.len().min(k.max(1));
                if s.chunk > 0 {
                    n = n.min(s.chunk);
                }
                let have = s.data.len();
                for &cut in &s.cuts {
                    if cut > have && cut < have + n {
                        n = cut - have;
                    }
                }
                let n = if buf.is_empty() { 0 } else { n };
                s.data.extend_from_slice(&buf[..n]);
                s.writes.push((buf.len(), "acc".into(), n));
                Ok(n)
            }
            Resp::Intr => {
                s.writes.push((buf.len(), "intr".into(), 0));
                Err(io::Error::new(io::ErrorKind::Interrupted, "injected interrupt"))
            }
            Resp::Zero => {
                s.writes.push((buf.len(), "zero".into(), 0));
                Ok(0)
            }
            Resp::Fail(kind) => {
                s.writes.push((buf.len(), format!("fail:{:?}", kind), 0));
                // sinks report errors in every form std offers: with a payload, as a bare kind, as an OS error number
                match kind {
                    io::ErrorKind::BrokenPipe | io::ErrorKind::TimedOut => Err(io::Error::from(kind)),
                    io::ErrorKind::WouldBlock => Err(io::Error::from_raw_os_error(11)),
                    _ => Err(io::Error::new(kind, "injected failure")),
                }
            }
        }
    }
    fn flush(&mut self) -> io::Result<()> {
        self.0.lock().unwrap().flushes += 1;
        Ok(())
    }
}

// ------------------------------------------------------------------------------------------------
// configuration
// ------------------------------------------------------------------------------------------------
#[derive(Clone, Debug)]
pub struct Cfg {
    pub json: Value,
}

fn gs<'a>(v: &'a Value, k: &str) -> &'a str {
    v.get(k).and_then(|x| x.as_str()).unwrap_or("")
}
fn gu(v: &Value, k: &str) -> u64 {
    v.get(k).and_then(|x| x.as_u64()).unwrap_or(0)
}
fn gb(v: &Value, k: &str) -> bool {
    v.get(k).and_then(|x| x.as_bool()).unwrap_or(false)
}
/// integer field given either as a number or as big-endian bytes (values >= 2^31)
pub fn wide(v: &Value, k: &str) -> u64 {
    match v.get(k) {
        Some(Value::Array(a)) => a.iter().fold(0u64, |acc, b| (acc << 8) | b.as_u64().unwrap_or(0)),
        Some(x) => x.as_u64().unwrap_or(0),
        None => 0,
    }
}

pub fn bytes_of(v: &Value) -> Vec<u8> {
    v.as_array()
        .map(|a| a.iter().map(|x| x.as_u64().unwrap_or(0) as u8).collect())
        .unwrap_or_default()
}
pub fn bytes_json(b: &[u8]) -> Value {
    Value::Array(b.iter().map(|&x| json!(x)).collect())
}

impl Cfg {
    pub fn vcodec(&self) -> VideoCodec {
        match gs(&self.json, "vc") {
            "h265" => VideoCodec::H265,
            "av1" => VideoCodec::Av1,
            "vp9" => VideoCodec::Vp9,
            _ => VideoCodec::H264,
        }
    }
    pub fn acodec(&self) -> AudioCodec {
        match gs(&self.json, "ac") {
            "aac" => AudioCodec::Aac(match gs(&self.json, "prof") {
                "main" => AacProfile::Main,
                "ssr" => AacProfile::Ssr,
                "ltp" => AacProfile::Ltp,
                "he" => AacProfile::He,
                "hev2" => AacProfile::Hev2,
                _ => AacProfile::Lc,
            }),
            "opus" => AudioCodec::Opus,
            _ => AudioCodec::None,
        }
    }
    pub fn unit(&self) -> u64 {
        // unit as byte array (big endian) or small integer
        match self.json.get("unit") {
            Some(Value::Array(a)) => a.iter().fold(0u64, |acc, b| (acc << 8) | b.as_u64().unwrap_or(0)),
            Some(v) => v.as_u64().unwrap_or(1).max(1),
            None => 1,
        }
    }
    pub fn mode_tick(&self) -> bool {
        gs(&self.json, "mode") == "tick"
    }
    pub fn facets(&self) -> Facets {
        let f = self.json.get("facets").cloned().unwrap_or(json!({}));
        Facets { bytes: gb(&f, "bytes"), tree: gb(&f, "tree"), raw: gb(&f, "raw"), timing: gb(&f, "timing") }
    }
    pub fn metadata(&self) -> Option<Metadata> {
        let m = self.json.get("meta")?;
        if !m.is_object() {
            return None;
        }
        let mut md = Metadata::new();
        if let Some(t) = m.get("title") {
            md = md.with_title(String::from_utf8_lossy(&bytes_of(t)).to_string());
        }
        if let Some(days) = m.get("ct_days") {
            let secs = days.as_u64().unwrap_or(0) * 86400 + gu(m, "ct_sod");
            md = md.with_creation_time(secs);
        }
        if let Some(raw) = m.get("ct_raw") {
            // full-range u64 given as 8 big-endian bytes
            let b = bytes_of(raw);
            md = md.with_creation_time(b.iter().fold(0u64, |acc, x| (acc << 8) | *x as u64));
        }
        if let Some(l) = m.get("lang") {
            md = md.with_language(String::from_utf8_lossy(&bytes_of(l)).to_string());
        }
        Some(md)
    }
}

// ------------------------------------------------------------------------------------------------
// time tokens
// ------------------------------------------------------------------------------------------------
pub fn tok_to_f64(t: &Value, cfg: &Cfg) -> f64 {
    match gs(t, "k") {
        "fin" => {
            let n = gu(t, "n");
            if cfg.mode_tick() {
                ((n as u128 * cfg.unit() as u128) as f64) / 90000.0
            } else if gs(&cfg.json, "mode") == "d32" {
                // dyadic times (n/32 s, exactly representable): n * 2812.5 ticks, i.e. exact ties for odd n
                n as f64 / 32.0
            } else {
                n as f64 / 270000.0
            }
        }
        "negzero" => -0.0,
        "neg" => -1.0 / 270000.0,
        "nan" => f64::NAN,
        "pinf" => f64::INFINITY,
        "ninf" => f64::NEG_INFINITY,
        "huge" => 1e300,
        "raw" => {
            // arbitrary bit pattern, 8 big-endian bytes (C12 only)
            let b = bytes_of(t.get("bits").unwrap_or(&Value::Null));
            f64::from_bits(b.iter().fold(0u64, |acc, x| (acc << 8) | *x as u64))
        }
        _ => 0.0,
    }
}

pub fn variant_name(e: &MuxerError) -> &'static str {
    match e {
        MuxerError::MissingVideoConfig => "MissingVideoConfig",
        MuxerError::Io(_) => "Io",
        MuxerError::AlreadyFinished => "AlreadyFinished",
        MuxerError::NegativeVideoPts { .. } => "NegativeVideoPts",
        MuxerError::NegativeVideoDts { .. } => "NegativeVideoDts",
        MuxerError::InvalidVideoPts { .. } => "InvalidVideoPts",
        MuxerError::InvalidVideoDts { .. } => "InvalidVideoDts",
        MuxerError::NegativeAudioPts { .. } => "NegativeAudioPts",
        MuxerError::InvalidAudioPts { .. } => "InvalidAudioPts",
        MuxerError::AudioNotConfigured => "AudioNotConfigured",
        MuxerError::EmptyAudioFrame { .. } => "EmptyAudioFrame",
        MuxerError::EmptyVideoFrame { .. } => "EmptyVideoFrame",
        MuxerError::NonIncreasingVideoPts { .. } => "NonIncreasingVideoPts",
        MuxerError::DecreasingAudioPts { .. } => "DecreasingAudioPts",
        MuxerError::AudioBeforeFirstVideo { .. } => "AudioBeforeFirstVideo",
        MuxerError::FirstVideoFrameMustBeKeyframe => "FirstVideoFrameMustBeKeyframe",
        MuxerError::FirstVideoFrameMissingSpsPps => "FirstVideoFrameMissingSpsPps",
        MuxerError::FirstAv1FrameMissingSequenceHeader => "FirstAv1FrameMissingSequenceHeader",
        MuxerError::FirstVp9FrameMissingSequenceHeader => "FirstVp9FrameMissingSequenceHeader",
        MuxerError::InvalidAdts { .. } => "InvalidAdts",
        MuxerError::InvalidAdtsDetailed { .. } => "InvalidAdtsDetailed",
        MuxerError::InvalidOpusPacket { .. } => "InvalidOpusPacket",
        MuxerError::NonIncreasingDts { .. } => "NonIncreasingDts",
    }
}

/// io::ErrorKind of an Io error (logged for C13), "" otherwise.
pub fn io_kind(e: &MuxerError) -> String {
    match e {
        MuxerError::Io(err) => format!("{:?}", err.kind()),
        _ => String::new(),
    }
}

// ------------------------------------------------------------------------------------------------
// running one instance
// ------------------------------------------------------------------------------------------------
#[derive(Clone, Copy, PartialEq, Eq, Debug)]
pub enum BuildStyle {
    Plain,
    /// set_video_track / set_audio_track / set_create_time / set_language
    Alias,
}

pub fn build_muxer(cfg: &Cfg, sink: SharedSink, style: BuildStyle) -> Result<Muxer<SharedSink>, MuxerError> {
    let j = &cfg.json;
    let mut b = MuxerBuilder::new(sink);
    let (w, h) = (wide(j, "w") as u32, wide(j, "h") as u32);
    let fps = match j.get("fps_bits") {
        Some(b) => f64::from_bits(bytes_of(b).iter().fold(0u64, |acc, x| (acc << 8) | *x as u64)),
        None => j.get("fps").and_then(|x| x.as_f64()).unwrap_or(30.0),
    };
    if !gb(j, "novideo") {
        b = match style {
            BuildStyle::Plain => b.video(cfg.vcodec(), w, h, fps),
            BuildStyle::Alias => b.set_video_track(cfg.vcodec(), w, h, fps),
        };
    }
    let ac = cfg.acodec();
    let (rate, ch) = (wide(j, "rate") as u32, wide(j, "ch") as u16);
    if ac != AudioCodec::None {
        b = match style {
            BuildStyle::Plain => b.audio(ac, rate, ch),
            BuildStyle::Alias => b.set_audio_track(ac, rate, ch),
        };
    } else if gb(j, "audio_none_explicit") {
        b = b.audio(AudioCodec::None, rate, ch);
    } else if let Some(k) = j.get("audio_then_none").and_then(|x| x.as_u64()) {
        // a real codec is configured first and then withdrawn: the last call decides ("none" = no audio)
        b = match k % 4 {
            0 => b.audio(AudioCodec::Aac(muxide::api::AacProfile::Lc), 48000, 2).audio(AudioCodec::None, 0, 0),
            1 => b.set_audio_track(AudioCodec::Opus, 48000, 2).set_audio_track(AudioCodec::None, 0, 0),
            2 => b.audio(AudioCodec::Opus, 48000, 1).set_audio_track(AudioCodec::None, 48000, 2),
            _ => b.set_audio_track(AudioCodec::Aac(muxide::api::AacProfile::Lc), 44100, 2).audio(AudioCodec::None, 0, 0),
        };
    }
    match style {
        BuildStyle::Plain => {
            if let Some(md) = cfg.metadata() {
                b = b.with_metadata(md);
            }
        }
        BuildStyle::Alias => {
            // equivalent path through the builder-level setters where they exist
            if let Some(md) = cfg.metadata() {
                if md.title.is_some() {
                    let mut only_title = Metadata::new();
                    only_title.title = md.title.clone();
                    b = b.with_metadata(only_title);
                }
                if let Some(ct) = md.creation_time {
                    b = b.set_create_time(ct);
                }
                if let Some(l) = md.language.clone() {
                    b = b.set_language(l);
                }
                if md.title.is_none() && md.creation_time.is_none() && md.language.is_none() {
                    b = b.with_metadata(Metadata::new());
                }
            }
        }
    }
    if j.get("fast").is_some() {
        b = b.with_fast_start(gb(j, "fast"));
    }
    b.build()
}

pub struct RunResult {
    pub events: Vec<Value>,
    /// (ok, variant) of every call in order
    pub outcomes: Vec<(bool, String)>,
    pub stats: Option<MuxerStats>,
    pub bytes: Vec<u8>,
    pub crashed: bool,
    /// every write() call the sink saw: (offered, response tag, accepted)
    pub writes: Vec<(usize, String, usize)>,
}

fn stats_json(s: &MuxerStats, cfg: &Cfg) -> Value {
    // duration in the instance's time unit (thirds of a tick, or U ticks), rounded to nearest
    let d = if cfg.mode_tick() {
        (s.duration_secs * 90000.0 / cfg.unit() as f64).round()
    } else if gs(&cfg.json, "mode") == "d32" {
        (s.duration_secs * 32.0).round()
    } else {
        (s.duration_secs * 270000.0).round()
    };
    let d = if d.is_finite() && d >= 0.0 && d < 1e9 { d as u64 } else { crate::reader::BIG };
    json!({"v": s.video_frames.min(crate::reader::BIG), "a": s.audio_frames.min(crate::reader::BIG),
           "bytes": s.bytes_written.min(crate::reader::BIG), "dur": d})
}

/// Monitor-totality self-test only (cfg.corrupt = seed): damage the produced bytes before they are projected, as an
/// arbitrarily deviating implementation might; the trace specifications must describe the result with signatures,
/// never fail to evaluate.
pub fn corrupt(b: &mut Vec<u8>, seed: u64) {
    let mut x = seed.wrapping_mul(0x9E37_79B9_7F4A_7C15).wrapping_add(0x1234_5678_9ABC_DEF1);
    let mut next = |m: usize| -> usize {
        x ^= x << 13;
        x ^= x >> 7;
        x ^= x << 17;
        if m == 0 { 0 } else { (x % m as u64) as usize }
    };
    if b.is_empty() {
        return;
    }
    let n = 1 + next(3);
    for _ in 0..n {
        let len = b.len();
        if len == 0 {
            return;
        }
        let at = next(len);
        match next(8) {
            0 => b[at] ^= 1 << next(8),
            1 => b[at] = [0u8, 1, 0x7f, 0x80, 0xff][next(5)],
            2 => {
                // a 32-bit field becomes large / small
                let v: u32 = [0u32, 1, 7, 8, 0x7fff_ffff, 0x8000_0000, 0xffff_ffff][next(7)];
                let a = at.min(len.saturating_sub(4));
                if a + 4 <= len {
                    b[a..a + 4].copy_from_slice(&v.to_be_bytes());
                }
            }
            3 => b.truncate(at),
            4 => {
                let e = (at + 1 + next(12)).min(len);
                b.drain(at..e);
            }
            5 => {
                let e = (at + 1 + next(12)).min(len);
                let dup: Vec<u8> = b[at..e].to_vec();
                let _ = b.splice(at..at, dup);
            }
            6 => {
                // off-by-small in a 32-bit big-endian count/offset
                let a = at.min(len.saturating_sub(4));
                if a + 4 <= len {
                    let v = u32::from_be_bytes([b[a], b[a + 1], b[a + 2], b[a + 3]]);
                    let w = if next(2) == 0 { v.wrapping_add(1 + next(3) as u32) } else { v.wrapping_sub(1 + next(3) as u32) };
                    b[a..a + 4].copy_from_slice(&w.to_be_bytes());
                }
            }
            _ => {
                let e = (at + 1 + next(6)).min(len);
                for k in at..e {
                    b[k] = 0;
                }
            }
        }
    }
}

pub struct RunOpts {
    pub style: BuildStyle,
    pub project: bool,
    pub sink_chunk: usize,
    pub script: Vec<Resp>,
    pub after: Option<Resp>,
    pub cuts: Vec<usize>,
}

impl Default for RunOpts {
    fn default() -> Self {
        RunOpts { style: BuildStyle::Plain, project: true, sink_chunk: 0, script: vec![], after: None, cuts: vec![] }
    }
}

/// Run one muxer instance through `calls`.  Never panics: panics of the library are outcomes.
pub fn run_instance(id: u64, cfg: &Cfg, calls: &[Value], opts: &RunOpts) -> RunResult {
    let sink = SharedSink::new();
    {
        let mut s = sink.0.lock().unwrap();
        s.chunk = opts.sink_chunk;
        s.script = opts.script.clone();
        s.after = opts.after.clone();
        s.cuts = opts.cuts.clone();
    }
    let mut events = Vec::new();
    let mut outcomes = Vec::new();
    let mut stats_out = None;
    let mut crashed = false;

    let mut new_ev = Map::new();
    new_ev.insert("ev".into(), json!("new"));
    new_ev.insert("i".into(), json!(id));
    new_ev.insert("kind".into(), json!("mux"));
    new_ev.insert("cfg".into(), cfg.json.clone());

    let built = catch(|| build_muxer(cfg, sink.clone(), opts.style));
    let mut mux: Option<Muxer<SharedSink>> = match built {
        Ok(Ok(m)) => {
            new_ev.insert("ok".into(), json!(true));
            new_ev.insert("var".into(), json!(""));
            Some(m)
        }
        Ok(Err(e)) => {
            new_ev.insert("ok".into(), json!(false));
            new_ev.insert("var".into(), json!(variant_name(&e)));
            None
        }
        Err(msg) => {
            new_ev.insert("ok".into(), json!(false));
            new_ev.insert("var".into(), json!("panic"));
            new_ev.insert("msg".into(), json!(msg));
            crashed = true;
            None
        }
    };
    events.push(Value::Object(new_ev));
    if mux.is_none() {
        return RunResult { events, outcomes, stats: None, bytes: sink.bytes(), crashed, writes: vec![] };
    }
    let unit = Unit(cfg.unit());
    let facets = cfg.facets();

    for c in calls {
        let op = gs(c, "op");
        let sb = sink.len();
        let wb = sink.0.lock().unwrap().writes.len();
        let mut ev = c.as_object().cloned().unwrap_or_default();
        ev.insert("i".into(), json!(id));
        let is_fin = op == "fin";
        ev.insert("ev".into(), json!(if is_fin { "fin" } else { "call" }));
        let data = bytes_of(c.get("data").unwrap_or(&Value::Null));
        let mut stats: Option<MuxerStats> = None;
        let mut consumed = false;
        let r: Result<Result<(), MuxerError>, String> = if mux.is_none() {
            // muxer consumed by an earlier finish(): no call is possible any more
            break;
        } else {
            match op {
                "wv" => {
                    let pts = tok_to_f64(&c["pts"], cfg);
                    let key = gb(c, "key");
                    let m = mux.as_mut().unwrap();
                    catch(|| m.write_video(pts, &data, key))
                }
                "wvd" => {
                    let pts = tok_to_f64(&c["pts"], cfg);
                    let dts = tok_to_f64(&c["dts"], cfg);
                    let key = gb(c, "key");
                    let m = mux.as_mut().unwrap();
                    catch(|| m.write_video_with_dts(pts, dts, &data, key))
                }
                "wa" => {
                    let pts = tok_to_f64(&c["pts"], cfg);
                    let m = mux.as_mut().unwrap();
                    catch(|| m.write_audio(pts, &data))
                }
                "ev" => {
                    let ms = wide(c, "ms") as u32;
                    let m = mux.as_mut().unwrap();
                    catch(|| m.encode_video(&data, ms))
                }
                "ea" => {
                    let n = wide(c, "n") as u32;
                    let m = mux.as_mut().unwrap();
                    catch(|| m.encode_audio(&data, n))
                }
                "fin" => match gs(c, "how") {
                    "in_place" => {
                        let m = mux.as_mut().unwrap();
                        catch(|| m.finish_in_place())
                    }
                    "in_place_stats" => {
                        let m = mux.as_mut().unwrap();
                        catch(|| m.finish_in_place_with_stats().map(|s| stats = Some(s)))
                    }
                    "finish_with_stats" => {
                        consumed = true;
                        let m = mux.take().unwrap();
                        catch(|| m.finish_with_stats().map(|s| stats = Some(s)))
                    }
                    "flush" => {
                        consumed = true;
                        let m = mux.take().unwrap();
                        catch(|| m.flush())
                    }
                    _ => {
                        consumed = true;
                        let m = mux.take().unwrap();
                        catch(|| m.finish())
                    }
                },
                _ => Ok(Ok(())),
            }
        };
        let _ = consumed;
        let sa = sink.len();
        ev.insert("sb".into(), json!(sb));
        ev.insert("sa".into(), json!(sa));
        ev.insert("wb".into(), json!(wb));
        ev.insert("wa".into(), json!(sink.0.lock().unwrap().writes.len()));
        let (ok, var) = match &r {
            Ok(Ok(())) => (true, String::new()),
            Ok(Err(e)) => {
                let k = io_kind(e);
                if !k.is_empty() {
                    ev.insert("iokind".into(), json!(k));
                }
                (false, variant_name(e).to_string())
            }
            Err(msg) => {
                ev.insert("msg".into(), json!(msg));
                (false, "panic".to_string())
            }
        };
        ev.insert("ok".into(), json!(ok));
        ev.insert("var".into(), json!(var.clone()));
        if let Some(s) = &stats {
            ev.insert("stats".into(), stats_json(s, cfg));
            stats_out = Some(*s);
        }
        if is_fin && ok && opts.project {
            let bytes = sink.bytes();
            let mut out = bytes[sb.min(bytes.len())..].to_vec();
            if let Some(seed) = cfg.json.get("corrupt").and_then(|x| x.as_u64()) {
                corrupt(&mut out, seed);
            }
            let obs = reader::project_file(&out, &unit, &facets);
            ev.insert("obs".into(), obs);
        }
        outcomes.push((ok, var.clone()));
        events.push(Value::Object(ev));
        if var == "panic" {
            crashed = true;
            break; // the instance is abandoned at the panic
        }
    }
    let writes = sink.0.lock().unwrap().writes.clone();
    RunResult { events, outcomes, stats: stats_out, bytes: sink.bytes(), crashed, writes }
}

// ------------------------------------------------------------------------------------------------
// fragmented muxer
// ------------------------------------------------------------------------------------------------
use muxide::codec::vp9::Vp9Config;
use muxide::fragmented::{FragmentConfig, FragmentedMuxer};

fn vp9_from(v: &Value) -> Vp9Config {
    Vp9Config {
        width: gu(v, "width") as u32,
        height: gu(v, "height") as u32,
        profile: gu(v, "profile") as u8,
        bit_depth: gu(v, "bit_depth") as u8,
        color_space: gu(v, "color_space") as u8,
        transfer_function: gu(v, "transfer_function") as u8,
        matrix_coefficients: gu(v, "matrix_coefficients") as u8,
        level: gu(v, "level") as u8,
        full_range_flag: gu(v, "full_range_flag") as u8,
    }
}

pub fn build_frag(cfg: &Cfg) -> Result<FragmentedMuxer, MuxerError> {
    let j = &cfg.json;
    let (w, h) = (wide(j, "w") as u32, wide(j, "h") as u32);
    if gs(j, "via") == "config" {
        let fc = FragmentConfig {
            width: w,
            height: h,
            timescale: wide(j, "timescale") as u32,
            fragment_duration_ms: wide(j, "fragms") as u32,
            sps: j.get("sps").map(bytes_of).unwrap_or_default(),
            pps: j.get("pps").map(bytes_of).unwrap_or_default(),
            vps: j.get("vps").map(bytes_of),
            av1_sequence_header: j.get("av1").map(bytes_of),
            vp9_config: j.get("vp9").map(vp9_from),
        };
        return Ok(FragmentedMuxer::new(fc));
    }
    let mut b = MuxerBuilder::new(Vec::<u8>::new());
    if !gb(j, "novideo") {
        b = b.video(cfg.vcodec(), w, h, 30.0);
    }
    if let Some(x) = j.get("sps") {
        b = b.with_sps(bytes_of(x));
    }
    if let Some(x) = j.get("pps") {
        b = b.with_pps(bytes_of(x));
    }
    if let Some(x) = j.get("vps") {
        b = b.with_vps(bytes_of(x));
    }
    if let Some(x) = j.get("av1") {
        b = b.with_av1_sequence_header(bytes_of(x));
    }
    if let Some(x) = j.get("vp9") {
        b = b.with_vp9_config(vp9_from(x));
    }
    b.new_with_fragment()
}

pub fn run_frag_instance(id: u64, cfg: &Cfg, calls: &[Value]) -> RunResult {
    let mut events = Vec::new();
    let mut outcomes = Vec::new();
    let mut out_bytes: Vec<u8> = Vec::new();
    let mut crashed = false;
    let mut new_ev = Map::new();
    new_ev.insert("ev".into(), json!("new"));
    new_ev.insert("i".into(), json!(id));
    new_ev.insert("kind".into(), json!("frag"));
    new_ev.insert("cfg".into(), cfg.json.clone());
    if let Some(mb) = cfg.json.get("must_build") {
        new_ev.insert("must_build".into(), mb.clone());
    }
    let built = catch(|| build_frag(cfg));
    let mut mux = match built {
        Ok(Ok(m)) => {
            new_ev.insert("ok".into(), json!(true));
            new_ev.insert("var".into(), json!(""));
            Some(m)
        }
        Ok(Err(e)) => {
            new_ev.insert("ok".into(), json!(false));
            new_ev.insert("var".into(), json!(variant_name(&e)));
            None
        }
        Err(msg) => {
            new_ev.insert("ok".into(), json!(false));
            new_ev.insert("var".into(), json!("panic"));
            new_ev.insert("msg".into(), json!(msg));
            crashed = true;
            None
        }
    };
    events.push(Value::Object(new_ev));
    let unit = Unit(cfg.unit());
    let facets = cfg.facets();
    let mut first_init: Option<Vec<u8>> = None;
    if let Some(m) = mux.as_mut() {
        for c in calls {
            let op = gs(c, "op");
            let mut ev = Map::new();
            ev.insert("i".into(), json!(id));
            let mut var = String::new();
            match op {
                "fw" => {
                    ev.insert("ev".into(), json!("f_write"));
                    let (pn, dn) = (gu(c, "pts"), gu(c, "dts"));
                    ev.insert("pts".into(), json!(pn));
                    ev.insert("dts".into(), json!(dn));
                    let data = bytes_of(c.get("data").unwrap_or(&Value::Null));
                    ev.insert("data".into(), bytes_json(&data));
                    let sync = gb(c, "sync");
                    ev.insert("sync".into(), json!(sync));
                    let (pts, dts) = (pn.wrapping_mul(unit.0).wrapping_add(wide(c, "pts_add")), dn.wrapping_mul(unit.0).wrapping_add(wide(c, "dts_add")));
                    match catch(|| m.write_video(pts, dts, &data, sync)) {
                        Ok(Ok(())) => {
                            ev.insert("ok".into(), json!(true));
                            outcomes.push((true, String::new()));
                        }
                        Ok(Err(_)) => {
                            ev.insert("ok".into(), json!(false));
                            var = "NonMonotonicDts".into();
                            outcomes.push((false, var.clone()));
                        }
                        Err(msg) => {
                            ev.insert("ok".into(), json!(false));
                            ev.insert("msg".into(), json!(msg));
                            var = "panic".into();
                        }
                    }
                }
                "ff" => {
                    ev.insert("ev".into(), json!("f_flush"));
                    match catch(|| m.flush_segment()) {
                        Ok(Some(seg)) => {
                            ev.insert("some".into(), json!(true));
                            let mut seg2 = seg.clone();
                            if let Some(seed) = cfg.json.get("corrupt").and_then(|x| x.as_u64()) {
                                corrupt(&mut seg2, seed + outcomes.len() as u64);
                            }
                            ev.insert("seg".into(), reader::project_segment(&seg2, &unit, &facets));
                            out_bytes.extend_from_slice(&seg);
                            outcomes.push((true, "segment".into()));
                        }
                        Ok(None) => {
                            ev.insert("some".into(), json!(false));
                            outcomes.push((true, "none".into()));
                        }
                        Err(msg) => {
                            ev.insert("some".into(), json!(false));
                            ev.insert("msg".into(), json!(msg));
                            var = "panic".into();
                        }
                    }
                }
                "fr" | "fd" => {
                    ev.insert("ev".into(), json!("f_query"));
                    ev.insert("op".into(), json!(if op == "fr" { "ready" } else { "dur" }));
                    if op == "fr" {
                        match catch(|| m.ready_to_flush()) {
                            Ok(b) => {
                                ev.insert("val".into(), json!(b));
                                outcomes.push((true, format!("ready={}", b)));
                            }
                            Err(msg) => {
                                ev.insert("val".into(), json!(false));
                                ev.insert("msg".into(), json!(msg));
                                var = "panic".into();
                            }
                        }
                    } else {
                        match catch(|| m.current_fragment_duration_ms()) {
                            Ok(d) => {
                                ev.insert("val".into(), json!(d.min(0x7fff_ffff)));
                                outcomes.push((true, format!("dur={}", d)));
                            }
                            Err(msg) => {
                                ev.insert("val".into(), json!(0));
                                ev.insert("msg".into(), json!(msg));
                                var = "panic".into();
                            }
                        }
                    }
                }
                "fi" => {
                    ev.insert("ev".into(), json!("f_init"));
                    match catch(|| m.init_segment()) {
                        Ok(init) => {
                            ev.insert("len".into(), json!(init.len()));
                            let same = first_init.as_ref().map(|f| f == &init).unwrap_or(true);
                            ev.insert("same_as_first".into(), json!(same));
                            if first_init.is_none() {
                                let mut init2 = init.clone();
                                if let Some(seed) = cfg.json.get("corrupt").and_then(|x| x.as_u64()) {
                                    corrupt(&mut init2, seed + 1000);
                                }
                                ev.insert("obs".into(), reader::project_file(&init2, &unit, &facets));
                                out_bytes.extend_from_slice(&init);
                                first_init = Some(init);
                            }
                            outcomes.push((true, format!("init same={}", same)));
                        }
                        Err(msg) => {
                            ev.insert("len".into(), json!(0));
                            ev.insert("same_as_first".into(), json!(true));
                            ev.insert("msg".into(), json!(msg));
                            var = "panic".into();
                        }
                    }
                }
                _ => continue,
            }
            ev.insert("var".into(), json!(var.clone()));
            events.push(Value::Object(ev));
            if var == "panic" {
                crashed = true;
                break;
            }
        }
    }
    RunResult { events, outcomes, stats: None, bytes: out_bytes, crashed, writes: vec![] }
}
