//! Executes call sequences against the real muxide library and records what happened.
//! Contains no expectations: outcomes, returned values and the projection of emitted bytes are
//! logged as facts; every judgement is made by the TLA+ trace specifications.

use crate::reader::{self, Facets, Unit};
use muxide::api::{
    AacProfile, AudioCodec, Metadata, Muxer, MuxerBuilder, MuxerError, MuxerStats, VideoCodec,
};
use serde_json::{json, Map, Value};
use std::io::{self, Write};
use std::sync::{Arc, Mutex};

// ------------------------------------------------------------------------------------------------
// panic capture
// ------------------------------------------------------------------------------------------------
thread_local! {
    static LAST_PANIC: std::cell::RefCell<String> = std::cell::RefCell::new(String::new());
}

pub fn install_panic_hook() {
    std::panic::set_hook(Box::new(|info| {
        let msg = if let Some(s) = info.payload().downcast_ref::<&str>() {
            s.to_string()
        } else if let Some(s) = info.payload().downcast_ref::<String>() {
            s.clone()
        } else {
            "<non-string panic>".to_string()
        };
        let loc = info
            .location()
            .map(|l| {
                let f = l.file();
                let f = f.rsplit("/src/").next().unwrap_or(f);
                format!("{}", f)
            })
            .unwrap_or_default();
        LAST_PANIC.with(|p| *p.borrow_mut() = format!("{} @{}", msg, loc));
    }));
}

/// Normalised, short panic message: digits collapsed so that the class does not depend on values.
pub fn norm_panic(s: &str) -> String {
    let mut out = String::new();
    let mut last_digit = false;
    for ch in s.chars() {
        if ch.is_ascii_digit() {
            if !last_digit {
                out.push('#');
            }
            last_digit = true;
        } else {
            last_digit = false;
            if ch == '"' || ch == '\\' || (ch as u32) < 0x20 || (ch as u32) > 0x7e {
                out.push('?');
            } else {
                out.push(ch);
            }
        }
        if out.len() >= 90 {
            break;
        }
    }
    out
}

pub fn catch<T>(f: impl FnOnce() -> T) -> Result<T, String> {
    LAST_PANIC.with(|p| p.borrow_mut().clear());
    match std::panic::catch_unwind(std::panic::AssertUnwindSafe(f)) {
        Ok(v) => Ok(v),
        Err(_) => Err(LAST_PANIC.with(|p| norm_panic(&p.borrow()))),
    }
}

// ------------------------------------------------------------------------------------------------
// recording / fault-injecting sink
// ------------------------------------------------------------------------------------------------
#[derive(Clone, Debug)]
pub enum Resp {
    /// accept at most k bytes (k >= 1)
    Accept(usize),
    Intr,
    Zero,
    Fail(io::ErrorKind),
}

#[derive(Default)]
pub struct SinkState {
    pub data: Vec<u8>,
    /// (offered length, response tag, accepted) per write call
    pub writes: Vec<(usize, String, usize)>,
    pub script: Vec<Resp>,
    /// response for write calls beyond the script (None = accept everything)
    pub after: Option<Resp>,
    pub flushes: usize,
    /// accept at most this many bytes per write call (0 = unlimited); for one-byte-at-a-time sinks
    pub chunk: usize,
}

#[derive(Clone)]
pub struct SharedSink(pub Arc<Mutex<SinkState>>);

impl SharedSink {
    pub fn new() -> Self {
        SharedSink(Arc::new(Mutex::new(SinkState::default())))
    }
    pub fn len(&self) -> usize {
        self.0.lock().unwrap().data.len()
    }
    pub fn bytes(&self) -> Vec<u8> {
        self.0.lock().unwrap().data.clone()
    }
}

impl Write for SharedSink {
    fn write(&mut self, buf: &[u8]) -> io::Result<usize> {
        let mut s = self.0.lock().unwrap();
        let idx = s.writes.len();
        let resp = if idx < s.script.len() {
            s.script[idx].clone()
        } else {
            match &s.after {
                Some(r) => r.clone(),
                None => Resp::Accept(usize::MAX),
            }
        };
        match resp {
            Resp::Accept(k) => {
                let mut n = buf.len().min(k.max(1));
                if s.chunk > 0 {
                    n = n.min(s.chunk);
                }
                let n = if buf.is_empty() { 0 } else { n };
                s.data.extend_from_slice(&buf[..n]);
                s.writes.push((buf.len(), "acc".into(), n));
                Ok(n)
            }
            Resp::Intr => {
                s.writes.push((buf.len(), "intr".into(), 0));
                Err(io::Error::new(io::ErrorKind::Interrupted, "injected interrupt"))
            }
            Resp::Zero => {
                s.writes.push((buf.len(), "zero".into(), 0));
                Ok(0)
            }
            Resp::Fail(kind) => {
                s.writes.push((buf.len(), format!("fail:{:?}", kind), 0));
                Err(io::Error::new(kind, "injected failure"))
            }
        }
    }
    fn flush(&mut self) -> io::Result<()> {
        self.0.lock().unwrap().flushes += 1;
        Ok(())
    }
}

// ------------------------------------------------------------------------------------------------
// configuration
// ------------------------------------------------------------------------------------------------
#[derive(Clone, Debug)]
pub struct Cfg {
    pub json: Value,
}

fn gs<'a>(v: &'a Value, k: &str) -> &'a str {
    v.get(k).and_then(|x| x.as_str()).unwrap_or("")
}
fn gu(v: &Value, k: &str) -> u64 {
    v.get(k).and_then(|x| x.as_u64()).unwrap_or(0)
}
fn gb(v: &Value, k: &str) -> bool {
    v.get(k).and_then(|x| x.as_bool()).unwrap_or(false)
}
pub fn bytes_of(v: &Value) -> Vec<u8> {
    v.as_array()
        .map(|a| a.iter().map(|x| x.as_u64().unwrap_or(0) as u8).collect())
        .unwrap_or_default()
}
pub fn bytes_json(b: &[u8]) -> Value {
    Value::Array(b.iter().map(|&x| json!(x)).collect())
}

impl Cfg {
    pub fn vcodec(&self) -> VideoCodec {
        match gs(&self.json, "vc") {
            "h265" => VideoCodec::H265,
            "av1" => VideoCodec::Av1,
            "vp9" => VideoCodec::Vp9,
            _ => VideoCodec::H264,
        }
    }
    pub fn acodec(&self) -> AudioCodec {
        match gs(&self.json, "ac") {
            "aac" => AudioCodec::Aac(match gs(&self.json, "prof") {
                "main" => AacProfile::Main,
                "ssr" => AacProfile::Ssr,
                "ltp" => AacProfile::Ltp,
                "he" => AacProfile::He,
                "hev2" => AacProfile::Hev2,
                _ => AacProfile::Lc,
            }),
            "opus" => AudioCodec::Opus,
            _ => AudioCodec::None,
        }
    }
    pub fn unit(&self) -> u64 {
        // unit as byte array (big endian) or small integer
        match self.json.get("unit") {
            Some(Value::Array(a)) => a.iter().fold(0u64, |acc, b| (acc << 8) | b.as_u64().unwrap_or(0)),
            Some(v) => v.as_u64().unwrap_or(1).max(1),
            None => 1,
        }
    }
    pub fn mode_tick(&self) -> bool {
        gs(&self.json, "mode") == "tick"
    }
    pub fn facets(&self) -> Facets {
        let f = self.json.get("facets").cloned().unwrap_or(json!({}));
        Facets { bytes: gb(&f, "bytes"), tree: gb(&f, "tree"), raw: gb(&f, "raw"), timing: gb(&f, "timing") }
    }
    pub fn metadata(&self) -> Option<Metadata> {
        let m = self.json.get("meta")?;
        if !m.is_object() {
            return None;
        }
        let mut md = Metadata::new();
        if let Some(t) = m.get("title") {
            md = md.with_title(String::from_utf8_lossy(&bytes_of(t)).to_string());
        }
        if let Some(days) = m.get("ct_days") {
            let secs = days.as_u64().unwrap_or(0) * 86400 + gu(m, "ct_sod");
            md = md.with_creation_time(secs);
        }
        if let Some(raw) = m.get("ct_raw") {
            // full-range u64 given as 8 big-endian bytes
            let b = bytes_of(raw);
            md = md.with_creation_time(b.iter().fold(0u64, |acc, x| (acc << 8) | *x as u64));
        }
        if let Some(l) = m.get("lang") {
            md = md.with_language(String::from_utf8_lossy(&bytes_of(l)).to_string());
        }
        Some(md)
    }
}

// ------------------------------------------------------------------------------------------------
// time tokens
// ------------------------------------------------------------------------------------------------
pub fn tok_to_f64(t: &Value, cfg: &Cfg) -> f64 {
    match gs(t, "k") {
        "fin" => {
            let n = gu(t, "n");
            if cfg.mode_tick() {
                ((n as u128 * cfg.unit() as u128) as f64) / 90000.0
            } else {
                n as f64 / 270000.0
            }
        }
        "negzero" => -0.0,
        "neg" => -1.0 / 270000.0,
        "nan" => f64::NAN,
        "pinf" => f64::INFINITY,
        "ninf" => f64::NEG_INFINITY,
        "huge" => 1e300,
        "raw" => {
            // arbitrary bit pattern, 8 big-endian bytes (C12 only)
            let b = bytes_of(t.get("bits").unwrap_or(&Value::Null));
            f64::from_bits(b.iter().fold(0u64, |acc, x| (acc << 8) | *x as u64))
        }
        _ => 0.0,
    }
}

pub fn variant_name(e: &MuxerError) -> &'static str {
    match e {
        MuxerError::MissingVideoConfig => "MissingVideoConfig",
        MuxerError::Io(_) => "Io",
        MuxerError::AlreadyFinished => "AlreadyFinished",
        MuxerError::NegativeVideoPts { .. } => "NegativeVideoPts",
        MuxerError::NegativeVideoDts { .. } => "NegativeVideoDts",
        MuxerError::InvalidVideoPts { .. } => "InvalidVideoPts",
        MuxerError::InvalidVideoDts { .. } => "InvalidVideoDts",
        MuxerError::NegativeAudioPts { .. } => "NegativeAudioPts",
        MuxerError::InvalidAudioPts { .. } => "InvalidAudioPts",
        MuxerError::AudioNotConfigured => "AudioNotConfigured",
        MuxerError::EmptyAudioFrame { .. } => "EmptyAudioFrame",
        MuxerError::EmptyVideoFrame { .. } => "EmptyVideoFrame",
        MuxerError::NonIncreasingVideoPts { .. } => "NonIncreasingVideoPts",
        MuxerError::DecreasingAudioPts { .. } => "DecreasingAudioPts",
        MuxerError::AudioBeforeFirstVideo { .. } => "AudioBeforeFirstVideo",
        MuxerError::FirstVideoFrameMustBeKeyframe => "FirstVideoFrameMustBeKeyframe",
        MuxerError::FirstVideoFrameMissingSpsPps => "FirstVideoFrameMissingSpsPps",
        MuxerError::FirstAv1FrameMissingSequenceHeader => "FirstAv1FrameMissingSequenceHeader",
        MuxerError::FirstVp9FrameMissingSequenceHeader => "FirstVp9FrameMissingSequenceHeader",
        MuxerError::InvalidAdts { .. } => "InvalidAdts",
        MuxerError::InvalidAdtsDetailed { .. } => "InvalidAdtsDetailed",
        MuxerError::InvalidOpusPacket { .. } => "InvalidOpusPacket",
        MuxerError::NonIncreasingDts { .. } => "NonIncreasingDts",
    }
}

/// io::ErrorKind of an Io error (logged for C13), "" otherwise.
pub fn io_kind(e: &MuxerError) -> String {
    match e {
        MuxerError::Io(err) => format!("{:?}", err.kind()),
        _ => String::new(),
    }
}

// ------------------------------------------------------------------------------------------------
// running one instance
// ------------------------------------------------------------------------------------------------
#[derive(Clone, Copy, PartialEq, Eq, Debug)]
pub enum BuildStyle {
    Plain,
    /// set_video_track / set_audio_track / set_create_time / set_language
    Alias,
}

pub fn build_muxer(cfg: &Cfg, sink: SharedSink, style: BuildStyle) -> Result<Muxer<SharedSink>, MuxerError> {
    let j = &cfg.json;
    let mut b = MuxerBuilder::new(sink);
    let (w, h) = (gu(j, "w") as u32, gu(j, "h") as u32);
    let fps = j.get("fps").and_then(|x| x.as_f64()).unwrap_or(30.0);
    if !gb(j, "novideo") {
        b = match style {
            BuildStyle::Plain => b.video(cfg.vcodec(), w, h, fps),
            BuildStyle::Alias => b.set_video_track(cfg.vcodec(), w, h, fps),
        };
    }
    let ac = cfg.acodec();
    let (rate, ch) = (gu(j, "rate") as u32, gu(j, "ch") as u16);
    if ac != AudioCodec::None {
        b = match style {
            BuildStyle::Plain => b.audio(ac, rate, ch),
            BuildStyle::Alias => b.set_audio_track(ac, rate, ch),
        };
    } else if gb(j, "audio_none_explicit") {
        b = b.audio(AudioCodec::None, rate, ch);
    }
    match style {
        BuildStyle::Plain => {
            if let Some(md) = cfg.metadata() {
                b = b.with_metadata(md);
            }
        }
        BuildStyle::Alias => {
            // equivalent path through the builder-level setters where they exist
            if let Some(md) = cfg.metadata() {
                if md.title.is_some() {
                    let mut only_title = Metadata::new();
                    only_title.title = md.title.clone();
                    b = b.with_metadata(only_title);
                }
                if let Some(ct) = md.creation_time {
                    b = b.set_create_time(ct);
                }
                if let Some(l) = md.language.clone() {
                    b = b.set_language(l);
                }
                if md.title.is_none() && md.creation_time.is_none() && md.language.is_none() {
                    b = b.with_metadata(Metadata::new());
                }
            }
        }
    }
    if j.get("fast").is_some() {
        b = b.with_fast_start(gb(j, "fast"));
    }
    b.build()
}

pub struct RunResult {
    pub events: Vec<Value>,
    /// (ok, variant) of every call in order
    pub outcomes: Vec<(bool, String)>,
    pub stats: Option<MuxerStats>,
    pub bytes: Vec<u8>,
    pub crashed: bool,
}

fn stats_json(s: &MuxerStats, cfg: &Cfg) -> Value {
    // duration in the instance's time unit (thirds of a tick, or U ticks), rounded to nearest
    let d = if cfg.mode_tick() {
        (s.duration_secs * 90000.0 / cfg.unit() as f64).round()
    } else {
        (s.duration_secs * 270000.0).round()
    };
    let d = if d.is_finite() && d >= 0.0 && d < 2147483647.0 { d as u64 } else { 2147483647 };
    json!({"v": s.video_frames.min(0x7fff_ffff), "a": s.audio_frames.min(0x7fff_ffff),
           "bytes": s.bytes_written.min(0x7fff_ffff), "dur": d})
}

pub struct RunOpts {
    pub style: BuildStyle,
    pub project: bool,
    pub sink_chunk: usize,
    pub script: Vec<Resp>,
    pub after: Option<Resp>,
}

impl Default for RunOpts {
    fn default() -> Self {
        RunOpts { style: BuildStyle::Plain, project: true, sink_chunk: 0, script: vec![], after: None }
    }
}

/// Run one muxer instance through `calls`.  Never panics: panics of the library are outcomes.
pub fn run_instance(id: u64, cfg: &Cfg, calls: &[Value], opts: &RunOpts) -> RunResult {
    let sink = SharedSink::new();
    {
        let mut s = sink.0.lock().unwrap();
        s.chunk = opts.sink_chunk;
        s.script = opts.script.clone();
        s.after = opts.after.clone();
    }
    let mut events = Vec::new();
    let mut outcomes = Vec::new();
    let mut stats_out = None;
    let mut crashed = false;

    let mut new_ev = Map::new();
    new_ev.insert("ev".into(), json!("new"));
    new_ev.insert("i".into(), json!(id));
    new_ev.insert("kind".into(), json!("mux"));
    new_ev.insert("cfg".into(), cfg.json.clone());

    let built = catch(|| build_muxer(cfg, sink.clone(), opts.style));
    let mut mux: Option<Muxer<SharedSink>> = match built {
        Ok(Ok(m)) => {
            new_ev.insert("ok".into(), json!(true));
            new_ev.insert("var".into(), json!(""));
            Some(m)
        }
        Ok(Err(e)) => {
            new_ev.insert("ok".into(), json!(false));
            new_ev.insert("var".into(), json!(variant_name(&e)));
            None
        }
        Err(msg) => {
            new_ev.insert("ok".into(), json!(false));
            new_ev.insert("var".into(), json!("panic"));
            new_ev.insert("msg".into(), json!(msg));
            crashed = true;
            None
        }
    };
    events.push(Value::Object(new_ev));
    if mux.is_none() {
        return RunResult { events, outcomes, stats: None, bytes: sink.bytes(), crashed };
    }
    let unit = Unit(cfg.unit());
    let facets = cfg.facets();

    for c in calls {
        let op = gs(c, "op");
        let sb = sink.len();
        let mut ev = c.as_object().cloned().unwrap_or_default();
        ev.insert("i".into(), json!(id));
        let is_fin = op == "fin";
        ev.insert("ev".into(), json!(if is_fin { "fin" } else { "call" }));
        let data = bytes_of(c.get("data").unwrap_or(&Value::Null));
        let mut stats: Option<MuxerStats> = None;
        let mut consumed = false;
        let r: Result<Result<(), MuxerError>, String> = if mux.is_none() {
            // muxer consumed by an earlier finish(): no call is possible any more
            break;
        } else {
            match op {
                "wv" => {
                    let pts = tok_to_f64(&c["pts"], cfg);
                    let key = gb(c, "key");
                    let m = mux.as_mut().unwrap();
                    catch(|| m.write_video(pts, &data, key))
                }
                "wvd" => {
                    let pts = tok_to_f64(&c["pts"], cfg);
                    let dts = tok_to_f64(&c["dts"], cfg);
                    let key = gb(c, "key");
                    let m = mux.as_mut().unwrap();
                    catch(|| m.write_video_with_dts(pts, dts, &data, key))
                }
                "wa" => {
                    let pts = tok_to_f64(&c["pts"], cfg);
                    let m = mux.as_mut().unwrap();
                    catch(|| m.write_audio(pts, &data))
                }
                "ev" => {
                    let ms = gu(c, "ms") as u32;
                    let m = mux.as_mut().unwrap();
                    catch(|| m.encode_video(&data, ms))
                }
                "ea" => {
                    let n = gu(c, "n") as u32;
                    let m = mux.as_mut().unwrap();
                    catch(|| m.encode_audio(&data, n))
                }
                "fin" => match gs(c, "how") {
                    "in_place" => {
                        let m = mux.as_mut().unwrap();
                        catch(|| m.finish_in_place())
                    }
                    "in_place_stats" => {
                        let m = mux.as_mut().unwrap();
                        catch(|| m.finish_in_place_with_stats().map(|s| stats = Some(s)))
                    }
                    "finish_with_stats" => {
                        consumed = true;
                        let m = mux.take().unwrap();
                        catch(|| m.finish_with_stats().map(|s| stats = Some(s)))
                    }
                    "flush" => {
                        consumed = true;
                        let m = mux.take().unwrap();
                        catch(|| m.flush())
                    }
                    _ => {
                        consumed = true;
                        let m = mux.take().unwrap();
                        catch(|| m.finish())
                    }
                },
                _ => Ok(Ok(())),
            }
        };
        let _ = consumed;
        let sa = sink.len();
        ev.insert("sb".into(), json!(sb));
        ev.insert("sa".into(), json!(sa));
        let (ok, var) = match &r {
            Ok(Ok(())) => (true, String::new()),
            Ok(Err(e)) => {
                let k = io_kind(e);
                if !k.is_empty() {
                    ev.insert("iokind".into(), json!(k));
                }
                (false, variant_name(e).to_string())
            }
            Err(msg) => {
                ev.insert("msg".into(), json!(msg));
                (false, "panic".to_string())
            }
        };
        ev.insert("ok".into(), json!(ok));
        ev.insert("var".into(), json!(var.clone()));
        if let Some(s) = &stats {
            ev.insert("stats".into(), stats_json(s, cfg));
            stats_out = Some(*s);
        }
        if is_fin && ok && opts.project {
            let bytes = sink.bytes();
            let obs = reader::project_file(&bytes[sb.min(bytes.len())..], &unit, &facets);
            ev.insert("obs".into(), obs);
        }
        outcomes.push((ok, var.clone()));
        events.push(Value::Object(ev));
        if var == "panic" {
            crashed = true;
            break; // the instance is abandoned at the panic
        }
    }
    RunResult { events, outcomes, stats: stats_out, bytes: sink.bytes(), crashed }
}
