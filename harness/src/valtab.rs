//! Tables of muxide::validation::{validate_video_config, validate_audio_config, validate_video_frame,
//! validate_audio_frame, validate_muxing_config} and of the FromStr / Display surfaces of the codec
//! enums; outputs only, judged by TraceVal.tla.
use crate::exec::{bytes_json, catch};
use crate::out::TraceWriter;
use muxide::api::{AacProfile, AudioCodec, VideoCodec};
use muxide::validation as val;
use serde_json::{json, Value};

const VCS: [(&str, VideoCodec); 4] = [("h264", VideoCodec::H264), ("h265", VideoCodec::H265), ("av1", VideoCodec::Av1), ("vp9", VideoCodec::Vp9)];

pub fn run(out: &str, frames: &[Vec<u8>]) -> usize {
    std::fs::create_dir_all(out).unwrap();
    let mut w = TraceWriter::create(&format!("{}/shard_0.ndjson", out));
    let mut k = 0u64;
    let dims: [u32; 12] = [0, 1, 239, 240, 319, 320, 640, 2160, 2161, 4096, 4097, 65536];
    let fpsm: [i64; 8] = [-1000, 0, 1, 1000, 29970, 120000, 120001, 1000000];
    for (name, vc) in VCS {
        for &wd in &dims {
            for &ht in &dims {
                for &f in &fpsm {
                    let fps = f as f64 / 1000.0;
                    let r = catch(|| val::validate_video_config(vc, wd, ht, fps));
                    w.write(&json!({"ev": "val", "k": k, "f": "video_config", "vc": name, "w": wd, "h": ht, "fps_milli": f,
                                    "valid": r.as_ref().map(|x| x.is_valid).unwrap_or(false), "nerr": r.as_ref().map(|x| x.errors.len()).unwrap_or(0),
                                    "panic": r.is_err()}));
                    k += 1;
                }
            }
        }
    }
    let acs: [(&str, AudioCodec); 3] = [("aac", AudioCodec::Aac(AacProfile::Lc)), ("opus", AudioCodec::Opus), ("none", AudioCodec::None)];
    for (name, ac) in acs {
        for rate in [0u32, 1, 8000, 48000, 192000, 192001, u32::MAX / 2] {
            for ch in [0u8, 1, 2, 8, 9, 255] {
                let r = catch(|| val::validate_audio_config(ac, rate, ch));
                w.write(&json!({"ev": "val", "k": k, "f": "audio_config", "ac": name, "rate": rate, "ch": ch,
                                "valid": r.as_ref().map(|x| x.is_valid).unwrap_or(false), "panic": r.is_err()}));
                k += 1;
            }
        }
        for d in frames {
            let r = catch(|| val::validate_audio_frame(ac, d));
            w.write(&json!({"ev": "val", "k": k, "f": "audio_frame", "ac": name, "data": bytes_json(d),
                            "valid": r.as_ref().map(|x| x.is_valid).unwrap_or(false), "panic": r.is_err()}));
            k += 1;
        }
    }
    for (name, vc) in VCS {
        for d in frames {
            for key in [true, false] {
                let r = catch(|| val::validate_video_frame(vc, d, key));
                w.write(&json!({"ev": "val", "k": k, "f": "video_frame", "vc": name, "data": bytes_json(d), "key": key,
                                "valid": r.as_ref().map(|x| x.is_valid).unwrap_or(false), "panic": r.is_err()}));
                k += 1;
            }
        }
    }
    // FromStr / Display surfaces
    for s in ["h264", "H264", "h.264", "avc", "AVC", "h265", "H.265", "hevc", "av1", "AV1", "vp9", "VP9", "vp8", "", "h 264", "mpeg4"] {
        let r: Result<VideoCodec, String> = s.parse();
        let shown = r.as_ref().map(|c| format!("{}", c)).unwrap_or_default();
        let back: Option<bool> = r.as_ref().ok().map(|c| shown.parse::<VideoCodec>().map(|c2| c2 == *c).unwrap_or(false));
        w.write(&json!({"ev": "val", "k": k, "f": "vcodec_fromstr", "s": s.to_lowercase(), "ok": r.is_ok(), "shown": shown, "roundtrip": back.unwrap_or(false)}));
        k += 1;
    }
    for s in ["aac", "AAC", "aac-lc", "aac-main", "aac-ssr", "aac-ltp", "aac-he", "aac-hev2", "AAC-HE", "opus", "OPUS", "none", "None", "mp3", "", "aac-"] {
        let r: Result<AudioCodec, String> = s.parse();
        let shown = r.as_ref().map(|c| format!("{}", c)).unwrap_or_default();
        let back: Option<bool> = r.as_ref().ok().map(|c| shown.parse::<AudioCodec>().map(|c2| c2 == *c).unwrap_or(false));
        w.write(&json!({"ev": "val", "k": k, "f": "acodec_fromstr", "s": s.to_lowercase(), "ok": r.is_ok(), "shown": shown, "roundtrip": back.unwrap_or(false)}));
        k += 1;
    }
    // validate_muxing_config: the composition of the four validators over presence combinations
    let good_v = frames.iter().find(|f| f.len() > 8 && f.starts_with(&[0, 0, 0, 1, 0x67])).cloned().unwrap_or_else(|| vec![0, 0, 0, 1, 0x67, 0x42, 0, 0x1e, 0, 0, 0, 1, 0x68, 0xce, 0, 0, 0, 1, 0x65, 0x88]);
    let adts_ok: Vec<u8> = vec![0xff, 0xf1, 0x4c, 0x80, 0x01, 0x3f, 0xfc, 1, 2];
    let vcodecs: [Option<VideoCodec>; 2] = [None, Some(VideoCodec::H264)];
    let ws: [Option<u32>; 3] = [None, Some(640), Some(100)];
    let hs: [Option<u32>; 2] = [None, Some(480)];
    let fpss: [Option<f64>; 2] = [None, Some(30.0)];
    let vframes: [Option<(Vec<u8>, bool)>; 3] = [None, Some((good_v.clone(), true)), Some((vec![0xde, 0xad], true))];
    let acodecs: [(&str, Option<AudioCodec>); 4] = [("absent", None), ("none", Some(AudioCodec::None)), ("aac", Some(AudioCodec::Aac(AacProfile::Lc))), ("opus", Some(AudioCodec::Opus))];
    let rates: [Option<u32>; 3] = [None, Some(48000), Some(7)];
    let chs: [Option<u8>; 3] = [None, Some(2), Some(0)];
    let aframes: [Option<Vec<u8>>; 3] = [None, Some(adts_ok.clone()), Some(vec![1, 2, 3])];
    for vc in &vcodecs {
        for wd in &ws {
            for ht in &hs {
                for fps in &fpss {
                    for vf in &vframes {
                        for (an, ac) in &acodecs {
                            for rate in &rates {
                                for ch in &chs {
                                    for af in &aframes {
                                        let vcfg = val::VideoValidationConfig { codec: *vc, width: *wd, height: *ht, framerate: *fps, sample_frame: vf.clone() };
                                        let acfg = val::AudioValidationConfig { codec: *ac, sample_rate: *rate, channels: *ch, sample_frame: af.clone() };
                                        let r = catch(|| val::validate_muxing_config(vcfg, acfg));
                                        // the parts, from the individual validators (judged on their own above)
                                        let v_ok = match (vc, wd, ht, fps) {
                                            (Some(c), Some(x), Some(y), Some(f)) => catch(|| val::validate_video_config(*c, *x, *y, *f)).map(|r| r.is_valid).unwrap_or(false),
                                            _ => true,
                                        };
                                        let vf_ok = match (vc, vf) {
                                            (Some(c), Some((d, key))) => catch(|| val::validate_video_frame(*c, d, *key)).map(|r| r.is_valid).unwrap_or(false),
                                            _ => true,
                                        };
                                        let a_ok = match (ac, rate, ch) {
                                            (Some(c), Some(r), Some(n)) => catch(|| val::validate_audio_config(*c, *r, *n)).map(|r| r.is_valid).unwrap_or(false),
                                            _ => true,
                                        };
                                        let af_ok = match (ac, af) {
                                            (Some(c), Some(d)) => catch(|| val::validate_audio_frame(*c, d)).map(|r| r.is_valid).unwrap_or(false),
                                            _ => true,
                                        };
                                        w.write(&json!({"ev": "val", "k": k, "f": "muxing_config",
                                            "vc_some": vc.is_some(), "w_some": wd.is_some(), "h_some": ht.is_some(), "fps_some": fps.is_some(), "vf_given": vf.is_some(),
                                            "ac": an, "rate_some": rate.is_some(), "ch_some": ch.is_some(), "af_given": af.is_some(),
                                            "v_ok": v_ok, "vf_ok": vf_ok, "a_ok": a_ok, "af_ok": af_ok,
                                            "valid": r.as_ref().map(|x| x.is_valid).unwrap_or(false), "nerr": r.as_ref().map(|x| x.errors.len()).unwrap_or(0),
                                            "panic": r.is_err()}));
                                        k += 1;
                                    }
                                }
                            }
                        }
                    }
                }
            }
        }
    }
    // documented defaults
    {
        let fc = muxide::fragmented::FragmentConfig::default();
        w.write(&json!({"ev": "val", "k": k, "f": "defaults", "frag_timescale": fc.timescale, "frag_duration_ms": fc.fragment_duration_ms,
                        "frag_w": fc.width, "frag_h": fc.height, "frag_sps": bytes_json(&fc.sps), "frag_pps": bytes_json(&fc.pps), "opus_rate": muxide::codec::opus::OPUS_SAMPLE_RATE}));
    }
    // public constants (values fixed by the codec specifications)
    {
        use muxide::codec::{av1, h264, h265};
        k += 1;
        w.write(&json!({"ev": "val", "k": k, "f": "constants",
            "h264": [h264::nal_type::NON_IDR_SLICE, h264::nal_type::IDR_SLICE, h264::nal_type::SPS, h264::nal_type::PPS],
            "h265": [h265::nal_type::BLA_W_LP, h265::nal_type::BLA_W_RADL, h265::nal_type::BLA_N_LP, h265::nal_type::IDR_W_RADL, h265::nal_type::IDR_N_LP,
                     h265::nal_type::CRA_NUT, h265::nal_type::VPS, h265::nal_type::SPS, h265::nal_type::PPS, h265::nal_type::AUD, h265::nal_type::EOS,
                     h265::nal_type::EOB, h265::nal_type::FD, h265::nal_type::PREFIX_SEI, h265::nal_type::SUFFIX_SEI],
            "obu": [av1::obu_type::SEQUENCE_HEADER, av1::obu_type::TEMPORAL_DELIMITER, av1::obu_type::FRAME_HEADER, av1::obu_type::TILE_GROUP, av1::obu_type::METADATA,
                    av1::obu_type::FRAME, av1::obu_type::REDUNDANT_FRAME_HEADER, av1::obu_type::TILE_LIST, av1::obu_type::PADDING],
            "default_sps": bytes_json(h264::DEFAULT_SPS), "default_pps": bytes_json(h264::DEFAULT_PPS)}));
    }
    // OpusConfig helper: defaults and the mapping family chosen by with_channels (RFC 7845 5.1.1: family 0 is mono / stereo only)
    {
        use muxide::codec::opus::OpusConfig;
        let d = OpusConfig::default();
        let fam: Vec<Value> = (0u8..=9).chain([255u8]).map(|c| {
            let x = OpusConfig::default().with_channels(c);
            json!([c, x.output_channel_count, x.channel_mapping_family])
        }).collect();
        k += 1;
        w.write(&json!({"ev": "val", "k": k, "f": "opusconfig", "version": d.version, "channels": d.output_channel_count, "pre_skip": d.pre_skip,
            "rate": d.input_sample_rate, "gain": d.output_gain, "family": d.channel_mapping_family,
            "mono": OpusConfig::mono().output_channel_count, "stereo": OpusConfig::stereo().output_channel_count,
            "preskip_set": OpusConfig::default().with_pre_skip(1000).pre_skip, "with_channels": fam}));
    }
    let _ = Value::Null;
    w.finish()
}
