//! Tables of muxide::validation::{validate_video_config, validate_audio_config, validate_video_frame,
//! validate_audio_frame, validate_muxing_config} and of the FromStr / Display surfaces of the codec
//! enums; outputs only, judged by TraceVal.tla.
use crate::exec::{bytes_json, catch};
use crate::out::TraceWriter;
use muxide::api::{AacProfile, AudioCodec, VideoCodec};
use muxide::validation as val;
use serde_json::{json, Value};

const VCS: [(&str, VideoCodec); 4] = [("h264", VideoCodec::H264), ("h265", VideoCodec::H265), ("av1", VideoCodec::Av1), ("vp9", VideoCodec::Vp9)];

pub fn run(out: &str, frames: &[Vec<u8>]) -> usize {
    std::fs::create_dir_all(out).unwrap();
    let mut w = TraceWriter::create(&format!("{}/shard_0.ndjson", out));
    let mut k = 0u64;
    let dims: [u32; 12] = [0, 1, 239, 240, 319, 320, 640, 2160, 2161, 4096, 4097, 65536];
    let fpsm: [i64; 8] = [-1000, 0, 1, 1000, 29970, 120000, 120001, 1000000];
    for (name, vc) in VCS {
        for &wd in &dims {
            for &ht in &dims {
                for &f in &fpsm {
                    let fps = f as f64 / 1000.0;
                    let r = catch(|| val::validate_video_config(vc, wd, ht, fps));
                    w.write(&json!({"ev": "val", "k": k, "f": "video_config", "vc": name, "w": wd, "h": ht, "fps_milli": f,
                                    "valid": r.as_ref().map(|x| x.is_valid).unwrap_or(false), "nerr": r.as_ref().map(|x| x.errors.len()).unwrap_or(0),
                                    "panic": r.is_err()}));
                    k += 1;
                }
            }
        }
    }
    let acs: [(&str, AudioCodec); 3] = [("aac", AudioCodec::Aac(AacProfile::Lc)), ("opus", AudioCodec::Opus), ("none", AudioCodec::None)];
    for (name, ac) in acs {
        for rate in [0u32, 1, 8000, 48000, 192000, 192001, u32::MAX / 2] {
            for ch in [0u8, 1, 2, 8, 9, 255] {
                let r = catch(|| val::validate_audio_config(ac, rate, ch));
                w.write(&json!({"ev": "val", "k": k, "f": "audio_config", "ac": name, "rate": rate, "ch": ch,
                                "valid": r.as_ref().map(|x| x.is_valid).unwrap_or(false), "panic": r.is_err()}));
                k += 1;
            }
        }
        for d in frames {
            let r = catch(|| val::validate_audio_frame(ac, d));
            w.write(&json!({"ev": "val", "k": k, "f": "audio_frame", "ac": name, "data": bytes_json(d),
                            "valid": r.as_ref().map(|x| x.is_valid).unwrap_or(false), "panic": r.is_err()}));
            k += 1;
        }
    }
    for (name, vc) in VCS {
        for d in frames {
            for key in [true, false] {
                let r = catch(|| val::validate_video_frame(vc, d, key));
                w.write(&json!({"ev": "val", "k": k, "f": "video_frame", "vc": name, "data": bytes_json(d), "key": key,
                                "valid": r.as_ref().map(|x| x.is_valid).unwrap_or(false), "panic": r.is_err()}));
                k += 1;
            }
        }
    }
    // FromStr / Display surfaces
    for s in ["h264", "H264", "h.264", "avc", "AVC", "h265", "H.265", "hevc", "av1", "AV1", "vp9", "VP9", "vp8", "", "h 264", "mpeg4"] {
        let r: Result<VideoCodec, String> = s.parse();
        let shown = r.as_ref().map(|c| format!("{}", c)).unwrap_or_default();
        let back: Option<bool> = r.as_ref().ok().map(|c| shown.parse::<VideoCodec>().map(|c2| c2 == *c).unwrap_or(false));
        w.write(&json!({"ev": "val", "k": k, "f": "vcodec_fromstr", "s": s.to_lowercase(), "ok": r.is_ok(), "shown": shown, "roundtrip": back.unwrap_or(false)}));
        k += 1;
    }
    for s in ["aac", "AAC", "aac-lc", "aac-main", "aac-ssr", "aac-ltp", "aac-he", "aac-hev2", "AAC-HE", "opus", "OPUS", "none", "None", "mp3", "", "aac-"] {
        let r: Result<AudioCodec, String> = s.parse();
        let shown = r.as_ref().map(|c| format!("{}", c)).unwrap_or_default();
        let back: Option<bool> = r.as_ref().ok().map(|c| shown.parse::<AudioCodec>().map(|c2| c2 == *c).unwrap_or(false));
        w.write(&json!({"ev": "val", "k": k, "f": "acodec_fromstr", "s": s.to_lowercase(), "ok": r.is_ok(), "shown": shown, "roundtrip": back.unwrap_or(false)}));
        k += 1;
    }
    let _ = Value::Null;
    w.finish()
}
