//! Comparison of two recorded runs, logged as facts (lengths, first difference); the TLA+ trace
//! specification says which pairs must be identical.
use crate::exec::RunResult;
use serde_json::{json, Map, Value};

fn first_diff(a: &Value, b: &Value, path: &str) -> Option<String> {
    match (a, b) {
        (Value::Object(x), Value::Object(y)) => {
            let mut keys: Vec<&String> = x.keys().chain(y.keys()).collect();
            keys.sort();
            keys.dedup();
            for k in keys {
                match (x.get(k), y.get(k)) {
                    (Some(p), Some(q)) => {
                        if let Some(d) = first_diff(p, q, &format!("{}.{}", path, k)) {
                            return Some(d);
                        }
                    }
                    _ => return Some(format!("{}.{}", path, k)),
                }
            }
            None
        }
        (Value::Array(x), Value::Array(y)) => {
            if x.len() != y.len() {
                return Some(format!("{}.len", path));
            }
            for (i, (p, q)) in x.iter().zip(y.iter()).enumerate() {
                if let Some(d) = first_diff(p, q, &format!("{}[{}]", path, i)) {
                    return Some(d);
                }
            }
            None
        }
        _ => {
            if a == b {
                None
            } else {
                Some(path.to_string())
            }
        }
    }
}

/// Remove everything that legitimately depends on the layout: absolute offsets, top-level order,
/// the box tree positions, the mdat position, chunk-offset table payloads.
pub fn strip_layout(obs: &Value) -> Value {
    let mut o = obs.as_object().cloned().unwrap_or_default();
    o.remove("top");
    o.remove("tree");
    // an empty media-data box describes nothing: a layout may write one where the other writes none (muxide does for a
    // video-only file without samples); the compared length leaves such boxes out
    let empty_mdat: u64 = obs
        .get("mdat")
        .and_then(|m| m.as_array())
        .map(|v| v.iter().filter(|x| x.get("pl").and_then(|p| p.as_u64()) == Some(0)).count() as u64 * 8)
        .unwrap_or(0);
    if let Some(l) = o.get("len").and_then(|l| l.as_u64()) {
        o.insert("len".into(), json!(l.saturating_sub(empty_mdat)));
    }
    o.remove("mdat");
    if let Some(Value::Array(raw)) = o.get_mut("raw") {
        raw.retain(|r| {
            let p = r.get("p").and_then(|x| x.as_str()).unwrap_or("");
            !(p.ends_with(".stco") || p.ends_with(".co64"))
        });
        // the order of top-level boxes changes the order of raw entries: sort by path
        raw.sort_by(|a, b| {
            let pa = a.get("p").and_then(|x| x.as_str()).unwrap_or("");
            let pb = b.get("p").and_then(|x| x.as_str()).unwrap_or("");
            pa.cmp(pb)
        });
    }
    if let Some(Value::Array(tracks)) = o.get_mut("tracks") {
        for t in tracks.iter_mut() {
            if let Some(Value::Array(ss)) = t.get_mut("s") {
                for s in ss.iter_mut() {
                    if let Some(m) = s.as_object_mut() {
                        m.remove("o");
                    }
                }
            }
        }
    }
    Value::Object(o)
}

/// Remove what legitimately depends on metadata: positions (as for the layout), the udta subtree,
/// the language field of mdhd, total length.
pub fn strip_meta(obs: &Value) -> Value {
    let mut o = strip_layout(obs).as_object().cloned().unwrap_or_default();
    o.remove("len");
    o.remove("udta");
    if let Some(Value::Array(raw)) = o.get_mut("raw") {
        raw.retain(|r| {
            let p = r.get("p").and_then(|x| x.as_str()).unwrap_or("");
            !p.contains("udta") && !p.ends_with(".mdhd")
        });
    }
    if let Some(Value::Array(tracks)) = o.get_mut("tracks") {
        for t in tracks.iter_mut() {
            if let Some(m) = t.as_object_mut() {
                m.remove("lang");
            }
        }
    }
    Value::Object(o)
}

fn last_obs(r: &RunResult) -> Option<&Value> {
    r.events.iter().rev().find_map(|e| e.get("obs"))
}

fn outcomes_equal(a: &RunResult, b: &RunResult) -> bool {
    a.outcomes == b.outcomes
}

fn stats_equal(a: &RunResult, b: &RunResult) -> bool {
    match (&a.stats, &b.stats) {
        (Some(x), Some(y)) => {
            x.video_frames == y.video_frames
                && x.audio_frames == y.audio_frames
                && x.bytes_written == y.bytes_written
                && x.duration_secs.to_bits() == y.duration_secs.to_bits()
        }
        (None, None) => true,
        _ => false,
    }
}

fn common_prefix(a: &[u8], b: &[u8]) -> usize {
    a.iter().zip(b.iter()).take_while(|(x, y)| x == y).count()
}

pub fn top_of(r: &RunResult) -> Option<Value> {
    last_obs(r).and_then(|o| o.get("top")).cloned()
}

/// `a` with fast start, `b` without.
pub fn pair_layout(id: u64, a: &RunResult, b: &RunResult) -> Value {
    let mut m = Map::new();
    m.insert("ev".into(), json!("pair"));
    m.insert("i".into(), json!(id));
    m.insert("rel".into(), json!("layout"));
    m.insert("same_outcomes".into(), json!(outcomes_equal(a, b) && stats_dur_frames_equal(a, b)));
    if let (Some(x), Some(y)) = (last_obs(a), last_obs(b)) {
        let d = first_diff(&strip_layout(x), &strip_layout(y), "$");
        m.insert("strip_equal".into(), json!(d.is_none()));
        m.insert("first_diff".into(), json!(d.map(|s| generalise(&s)).unwrap_or_default()));
        if let Some(t) = x.get("top") {
            m.insert("top_fast".into(), t.clone());
        }
        if let Some(t) = y.get("top") {
            m.insert("top_std".into(), t.clone());
        }
    }
    Value::Object(m)
}

fn stats_dur_frames_equal(a: &RunResult, b: &RunResult) -> bool {
    match (&a.stats, &b.stats) {
        (Some(x), Some(y)) => {
            x.video_frames == y.video_frames
                && x.audio_frames == y.audio_frames
                && x.duration_secs.to_bits() == y.duration_secs.to_bits()
        }
        (None, None) => true,
        _ => false,
    }
}

/// Replace indices by [*] so that the class of a difference does not depend on positions.
fn generalise(path: &str) -> String {
    let mut out = String::new();
    let mut in_br = false;
    for ch in path.chars() {
        if ch == '[' {
            in_br = true;
            out.push_str("[*");
        } else if ch == ']' {
            in_br = false;
            out.push(']');
        } else if !in_br {
            out.push(ch);
        }
    }
    out
}

/// Byte-level comparison for relations that demand identical outputs.
pub fn pair_same(id: u64, rel: &str, what: &str, a: &RunResult, b: &RunResult, b_outcomes_filtered: Option<Vec<(bool, String)>>) -> Value {
    let mut m = Map::new();
    m.insert("ev".into(), json!("pair"));
    m.insert("i".into(), json!(id));
    m.insert("rel".into(), json!(rel));
    m.insert("what".into(), json!(what));
    let same_out = match &b_outcomes_filtered {
        Some(f) => &a.outcomes == f,
        None => outcomes_equal(a, b),
    };
    m.insert("same_outcomes".into(), json!(same_out));
    m.insert("same_stats".into(), json!(stats_equal(a, b)));
    let cp = common_prefix(&a.bytes, &b.bytes);
    let same = a.bytes.len() == b.bytes.len() && cp == a.bytes.len();
    m.insert("same_bytes".into(), json!(same));
    m.insert("len_a".into(), json!(a.bytes.len()));
    m.insert("len_b".into(), json!(b.bytes.len()));
    m.insert("common".into(), json!(cp));
    let fd = if !same_out {
        "outcomes"
    } else if !stats_equal(a, b) {
        "stats"
    } else if !same {
        if a.bytes.len() != b.bytes.len() { "length" } else { "content" }
    } else {
        ""
    };
    m.insert("first_diff".into(), json!(fd));
    Value::Object(m)
}

pub fn pair_meta(id: u64, a: &RunResult, b: &RunResult) -> Value {
    let mut m = Map::new();
    m.insert("ev".into(), json!("pair"));
    m.insert("i".into(), json!(id));
    m.insert("rel".into(), json!("meta"));
    m.insert("same_outcomes".into(), json!(outcomes_equal(a, b) && stats_dur_frames_equal(a, b)));
    if let (Some(x), Some(y)) = (last_obs(a), last_obs(b)) {
        let d = first_diff(&strip_meta(x), &strip_meta(y), "$");
        m.insert("strip_equal".into(), json!(d.is_none()));
        m.insert("first_diff".into(), json!(d.map(|s| generalise(&s)).unwrap_or_default()));
    } else {
        m.insert("strip_equal".into(), json!(last_obs(a).is_none() == last_obs(b).is_none()));
        m.insert("first_diff".into(), json!("obs-presence"));
    }
    Value::Object(m)
}
