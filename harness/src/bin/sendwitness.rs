//! Compile-time witness for the auto-trait clause of C17: `Muxer<W>` is Send whenever `W` is
//! Send (and Sync whenever `W` is Sync).  This is decided by rustc, not by TLC: if the bound
//! does not hold, this binary does not compile and the C17 check reports the compiler message.
use muxide::api::{Muxer, MuxerBuilder};
use std::io::Write;

fn is_send<T: Send>() {}
fn is_sync<T: Sync>() {}

#[allow(dead_code)]
fn muxer_send_for_all_send_writers<W: Write + Send>() {
    is_send::<Muxer<W>>();
    is_send::<MuxerBuilder<W>>();
}

#[allow(dead_code)]
fn muxer_sync_for_all_sync_writers<W: Write + Sync>() {
    is_sync::<Muxer<W>>();
}

fn main() {
    muxer_send_for_all_send_writers::<Vec<u8>>();
    muxer_sync_for_all_sync_writers::<Vec<u8>>();
    is_send::<muxide::fragmented::FragmentedMuxer>();
    println!("send-sync witness compiled");
}
