//! ndjson trace writer.  Refuses (exit 2) to emit anything TLC's JSON reader would misread:
//! integers >= 2^31 (silently wrapped by TLC) and `null` (rejected by TLC).
use serde_json::Value;
use std::io::Write;

pub fn check_value(v: &Value, path: &str) -> Result<(), String> {
    match v {
        Value::Null => Err(format!("null at {}", path)),
        Value::Number(n) => {
            if let Some(i) = n.as_i64() {
                if i > 0x7fff_ffff || i < -0x7fff_ffff {
                    return Err(format!("integer {} out of TLC range at {}", i, path));
                }
                Ok(())
            } else if n.as_u64().is_some() {
                Err(format!("integer {} out of TLC range at {}", n, path))
            } else {
                Err(format!("non-integer number {} at {}", n, path))
            }
        }
        Value::Array(a) => {
            for (i, x) in a.iter().enumerate() {
                check_value(x, &format!("{}[{}]", path, i))?;
            }
            Ok(())
        }
        Value::Object(m) => {
            for (k, x) in m {
                check_value(x, &format!("{}.{}", path, k))?;
            }
            Ok(())
        }
        _ => Ok(()),
    }
}

pub struct TraceWriter {
    w: std::io::BufWriter<std::fs::File>,
    pub events: usize,
}

impl TraceWriter {
    pub fn create(path: &str) -> Self {
        let f = std::fs::File::create(path).unwrap_or_else(|e| {
            eprintln!("TOOL-ERROR cannot create {}: {}", path, e);
            std::process::exit(2)
        });
        TraceWriter { w: std::io::BufWriter::new(f), events: 0 }
    }
    pub fn write(&mut self, v: &Value) {
        if let Err(e) = check_value(v, "$") {
            eprintln!("TOOL-ERROR trace writer refuses event: {}", e);
            std::process::exit(2);
        }
        serde_json::to_writer(&mut self.w, v).unwrap();
        self.w.write_all(b"\n").unwrap();
        self.events += 1;
    }
    pub fn finish(mut self) -> usize {
        self.w.flush().unwrap();
        self.events
    }
}
