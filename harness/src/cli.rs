//! C20: runs the built `muxide` binary (from /repo's tree) with a given option record and the
//! equivalent in-process library call; logs facts only.
use crate::exec::{bytes_json, bytes_of, catch};
use crate::reader;
use muxide::api::{AudioCodec, Metadata, MuxerBuilder, MuxerStats, VideoCodec};
use serde_json::{json, Map, Value};
use std::io::Read;
use std::process::{Command, Stdio};
use std::time::{Duration, Instant};

fn gs<'a>(v: &'a Value, k: &str) -> &'a str {
    v.get(k).and_then(|x| x.as_str()).unwrap_or("")
}
fn gb(v: &Value, k: &str) -> bool {
    v.get(k).and_then(|x| x.as_bool()).unwrap_or(false)
}
fn gu(v: &Value, k: &str) -> u64 {
    v.get(k).and_then(|x| x.as_u64()).unwrap_or(0)
}

fn hex(d: &[u8], id: u64) -> String {
    let mut s = String::new();
    for (i, b) in d.iter().enumerate() {
        s.push_str(&format!("{:02x}", b));
        if (i as u64 + id) % 7 == 3 {
            s.push(if id % 2 == 0 { '\n' } else { ' ' });
        }
    }
    s.push('\n');
    s
}

/// Put an input file on disk according to its class; returns the path to pass (None = option absent).
fn materialise(dir: &str, name: &str, f: &Value, id: u64) -> Option<String> {
    let enc = gs(f, "enc");
    let data = bytes_of(f.get("data").unwrap_or(&Value::Null));
    let path = format!("{}/{}", dir, name);
    match enc {
        "absent" => return None,
        "missing" => return Some(path),
        "hex" => std::fs::write(&path, hex(&data, id)).unwrap(),
        // the file content is given literally (ASCII); whether it is hexadecimal text is decided by the specification
        "text" => std::fs::write(&path, bytes_of(f.get("text").unwrap_or(&Value::Null))).unwrap(),
        "odd" => {
            let mut h = hex(&data, id);
            h.insert(0, 'a');
            std::fs::write(&path, h).unwrap()
        }
        "nonhex" => {
            let mut h = hex(&data, id);
            h.insert_str(h.len() / 2, "zz");
            std::fs::write(&path, h).unwrap()
        }
        "empty" => std::fs::write(&path, if id % 2 == 0 { "" } else { " \n\t " }).unwrap(),
        "binary" => {
            let mut b = vec![0xff, 0xfe, 0x00, 0x80];
            b.extend_from_slice(&data);
            std::fs::write(&path, b).unwrap()
        }
        _ => std::fs::write(&path, &data).unwrap(),
    }
    Some(path)
}

pub struct Ran {
    pub exit: String,
    pub stdout: String,
}

pub fn run_bin(bin: &str, args: &[String], timeout: Duration) -> Ran {
    let mut child = match Command::new(bin)
        .args(args)
        .env("RUST_BACKTRACE", "0")
        .env("NO_COLOR", "1")
        .stdin(Stdio::null())
        .stdout(Stdio::piped())
        .stderr(Stdio::null())
        .spawn()
    {
        Ok(c) => c,
        Err(e) => {
            eprintln!("TOOL-ERROR cannot run {}: {}", bin, e);
            std::process::exit(2);
        }
    };
    let mut out = child.stdout.take().unwrap();
    let reader = std::thread::spawn(move || {
        let mut s = Vec::new();
        let _ = out.read_to_end(&mut s);
        String::from_utf8_lossy(&s).to_string()
    });
    let t0 = Instant::now();
    let exit = loop {
        match child.try_wait() {
            Ok(Some(st)) => break if st.success() { "ok".to_string() } else { "fail".to_string() },
            Ok(None) => {
                if t0.elapsed() > timeout {
                    let _ = child.kill();
                    let _ = child.wait();
                    break "timeout".to_string();
                }
                std::thread::sleep(Duration::from_millis(5));
            }
            Err(_) => break "fail".to_string(),
        }
    };
    let stdout = reader.join().unwrap_or_default();
    Ran { exit, stdout }
}

fn parse_vcodec(name: &str) -> Option<VideoCodec> {
    if name.is_empty() {
        return Some(VideoCodec::H264);
    }
    name.parse().ok()
}
fn parse_acodec(name: &str) -> Option<AudioCodec> {
    if name.is_empty() {
        return Some(AudioCodec::Aac(muxide::api::AacProfile::Lc));
    }
    name.parse().ok()
}

/// The in-process equivalent of `muxide mux` for the same settings and single-frame inputs.
fn library_run(o: &Value) -> Option<(Vec<u8>, MuxerStats)> {
    let vc = parse_vcodec(gs(o, "vcodec"))?;
    let fps = gu(o, "fps_milli") as f64 / 1000.0;
    let mut buf: Vec<u8> = Vec::new();
    let stats;
    {
        let mut b = MuxerBuilder::new(&mut buf).video(vc, gu(o, "w") as u32, gu(o, "h") as u32, fps);
        let audio_given = gs(&o["audio"], "enc") != "absent";
        if audio_given {
            let ac = parse_acodec(gs(o, "acodec"))?;
            b = b.audio(ac, gu(o, "rate") as u32, gu(o, "ch") as u16);
        }
        if let Some(t) = o.get("title") {
            b = b.with_metadata(Metadata::new().with_title(String::from_utf8_lossy(&bytes_of(t)).to_string()));
        }
        if let Some(l) = o.get("language") {
            b = b.set_language(String::from_utf8_lossy(&bytes_of(l)).to_string());
        }
        let mut m = b.build().ok()?;
        let vdata = bytes_of(o["video"].get("data").unwrap_or(&Value::Null));
        m.write_video(0.0, &vdata, true).ok()?;
        if audio_given {
            let adata = bytes_of(o["audio"].get("data").unwrap_or(&Value::Null));
            m.write_audio(0.0, &adata).ok()?;
        }
        stats = m.finish_with_stats().ok()?;
    }
    Some((buf, stats))
}

fn find_count(stdout: &str, json_mode: bool, key_json: &str, key_text: &str) -> i64 {
    if json_mode {
        if let Some(p) = stdout.find('{') {
            if let Ok(v) = serde_json::from_str::<Value>(&stdout[p..]) {
                return v.get(key_json).and_then(|x| x.as_i64()).unwrap_or(-1);
            }
        }
        -1
    } else {
        for l in stdout.lines() {
            if let Some(p) = l.find(key_text) {
                return l[p + key_text.len()..].trim().parse().unwrap_or(-1);
            }
        }
        -1
    }
}

pub fn run_cli_line(id: u64, line: &Value, bin: &str, workdir: &str) -> Value {
    let cmd = gs(line, "cmd").to_string();
    let o = line.get("opts").cloned().unwrap_or(json!({}));
    let dir = format!("{}/cli_{}_{}", workdir, std::process::id(), id);
    let _ = std::fs::remove_dir_all(&dir);
    std::fs::create_dir_all(&dir).unwrap();
    let mut ev = Map::new();
    ev.insert("ev".into(), json!("cli"));
    ev.insert("i".into(), json!(id));
    ev.insert("cmd".into(), json!(cmd));
    ev.insert("opts".into(), o.clone());
    ev.insert("crashed".into(), json!(false));
    let timeout = Duration::from_secs(20);
    let mut args: Vec<String> = Vec::new();
    if gb(&o, "json") {
        args.push("--json".into());
    }
    if gb(&o, "verbose") {
        args.push("--verbose".into());
    }
    if gb(&o, "no_progress") {
        args.push("--no-progress".into());
    }
    match cmd.as_str() {
        "mux" => {
            args.push(if id % 5 == 0 { "m".into() } else { "mux".into() });
            let vp = materialise(&dir, "video.hex", &o["video"], id);
            let ap = materialise(&dir, "audio.hex", &o["audio"], id);
            let outp = format!("{}/out.mp4", dir);
            if let Some(p) = &vp {
                args.push("--video".into());
                args.push(p.clone());
            }
            if let Some(p) = &ap {
                args.push("--audio".into());
                args.push(p.clone());
            }
            args.push("--output".into());
            args.push(outp.clone());
            let vname = o.get("vcodec_as_given").and_then(|x| x.as_str()).unwrap_or(gs(&o, "vcodec"));
            if !vname.is_empty() {
                args.push("--video-codec".into());
                args.push(vname.into());
            }
            if gb(&o, "has_w") {
                args.push("--width".into());
                args.push(gu(&o, "w").to_string());
            }
            if gb(&o, "has_h") {
                args.push("--height".into());
                args.push(gu(&o, "h").to_string());
            }
            if gb(&o, "has_fps") {
                args.push("--fps".into());
                args.push(gs(&o, "fps_text").to_string());
            }
            let aname = o.get("acodec_as_given").and_then(|x| x.as_str()).unwrap_or(gs(&o, "acodec"));
            if !aname.is_empty() {
                args.push("--audio-codec".into());
                args.push(aname.into());
            }
            if gb(&o, "has_rate") {
                args.push("--sample-rate".into());
                args.push(gu(&o, "rate").to_string());
            }
            if gb(&o, "has_ch") {
                args.push("--channels".into());
                args.push(gu(&o, "ch").to_string());
            }
            if let Some(t) = o.get("title") {
                args.push("--title".into());
                args.push(String::from_utf8_lossy(&bytes_of(t)).to_string());
            }
            if let Some(l) = o.get("language") {
                args.push("--language".into());
                args.push(String::from_utf8_lossy(&bytes_of(l)).to_string());
            }
            if gb(&o, "dry_run") {
                args.push("--dry-run".into());
            }
            if gb(&o, "fragmented") {
                args.push("--fragmented".into());
            }
            let r = run_bin(bin, &args, timeout);
            let json_mode = gb(&o, "json");
            let completion = if json_mode {
                find_count(&r.stdout, true, "video_frames", "") >= 0
            } else {
                r.stdout.contains("Muxing complete")
            };
            ev.insert("exit".into(), json!(r.exit));
            ev.insert("completion".into(), json!(completion));
            let out_bytes = std::fs::read(&outp).ok();
            ev.insert("out_exists".into(), json!(out_bytes.is_some()));
            ev.insert("rep_v".into(), json!(find_count(&r.stdout, json_mode, "video_frames", "Video frames:")));
            ev.insert("rep_a".into(), json!(find_count(&r.stdout, json_mode, "audio_frames", "Audio frames:")));
            match catch(|| library_run(&o)) {
                Ok(Some((lib, st))) => {
                    ev.insert("lib_ok".into(), json!(true));
                    ev.insert("lib_v".into(), json!(st.video_frames));
                    ev.insert("lib_a".into(), json!(st.audio_frames));
                    let same = out_bytes.as_ref().map(|b| b == &lib).unwrap_or(false);
                    ev.insert("same_as_lib".into(), json!(same));
                    let fd = match &out_bytes {
                        None => "no-output".to_string(),
                        Some(b) if b.len() != lib.len() => "length".to_string(),
                        Some(b) if b != &lib => "content".to_string(),
                        _ => String::new(),
                    };
                    ev.insert("first_diff".into(), json!(fd));
                }
                Ok(None) => {
                    ev.insert("lib_ok".into(), json!(false));
                    ev.insert("lib_v".into(), json!(-1));
                    ev.insert("lib_a".into(), json!(-1));
                    ev.insert("same_as_lib".into(), json!(false));
                    ev.insert("first_diff".into(), json!("library-rejects"));
                }
                Err(_) => {
                    ev.insert("crashed".into(), json!(true));
                    ev.insert("lib_ok".into(), json!(false));
                    ev.insert("lib_v".into(), json!(-1));
                    ev.insert("lib_a".into(), json!(-1));
                    ev.insert("same_as_lib".into(), json!(false));
                    ev.insert("first_diff".into(), json!("library-panics"));
                }
            }
        }
        "validate" => {
            args.push(if id % 5 == 0 { "v".into() } else { "validate".into() });
            if let Some(p) = materialise(&dir, "video.hex", &o["video"], id) {
                args.push("--video".into());
                args.push(p);
            }
            if let Some(p) = materialise(&dir, "audio.hex", &o["audio"], id) {
                args.push("--audio".into());
                args.push(p);
            }
            let r = run_bin(bin, &args, timeout);
            ev.insert("exit".into(), json!(r.exit));
            let (seen, verdict) = if gb(&o, "json") {
                match r.stdout.find('{').and_then(|p| serde_json::from_str::<Value>(&r.stdout[p..]).ok()) {
                    Some(v) => match v.get("valid").and_then(|x| x.as_bool()) {
                        Some(b) => (true, b),
                        None => (false, false),
                    },
                    None => (false, false),
                }
            } else if r.stdout.contains("Validation successful") {
                (true, true)
            } else if r.stdout.contains("Validation failed") {
                (true, false)
            } else {
                (false, false)
            };
            ev.insert("verdict_seen".into(), json!(seen));
            ev.insert("verdict".into(), json!(verdict));
        }
        _ => {
            // info
            args.push(if id % 5 == 0 { "i".into() } else { "info".into() });
            let mut data = bytes_of(line.get("file").unwrap_or(&Value::Null));
            if let Some(from) = line.get("from") {
                // a file produced by the library itself, optionally damaged
                let cfg = crate::exec::Cfg { json: from["cfg"].clone() };
                let calls: Vec<Value> = from["calls"].as_array().cloned().unwrap_or_default();
                let r = crate::exec::run_instance(id, &cfg, &calls, &crate::exec::RunOpts { project: false, ..Default::default() });
                data = r.bytes;
                let m = gs(line, "mutate");
                let k = gu(line, "mutate_at") as usize;
                if !data.is_empty() {
                    match m {
                        "truncate" => data.truncate(k % data.len()),
                        "flip" => {
                            let p = k % data.len();
                            data[p] ^= 1 << (k % 8);
                        }
                        "zero_size" => {
                            // size field of the second top-level box set to 0 ("extends to end of file")
                            if data.len() > 28 {
                                for b in &mut data[24..28] {
                                    *b = 0;
                                }
                            }
                        }
                        "append" => data.extend_from_slice(&[0, 0, 0, 3, 1, 2, 3]),
                        _ => {}
                    }
                }
            }
            let path = format!("{}/input.mp4", dir);
            std::fs::write(&path, &data).unwrap();
            args.push(path);
            // the listing is only machine-readable in json mode
            if !args.iter().any(|a| a == "--json") {
                args.insert(0, "--json".into());
            }
            let r = run_bin(bin, &args, Duration::from_secs(8));
            ev.insert("exit".into(), json!(r.exit));
            ev.insert("wellformed".into(), json!(gb(line, "wellformed")));
            let mut listed = Vec::new();
            if let Some(v) = r.stdout.find('{').and_then(|p| serde_json::from_str::<Value>(&r.stdout[p..]).ok()) {
                if let Some(bs) = v.get("boxes").and_then(|b| b.as_array()) {
                    for b in bs {
                        listed.push(json!([b.get("type").and_then(|x| x.as_str()).unwrap_or("?"),
                                           b.get("size").and_then(|x| x.as_u64()).unwrap_or(0).min(0x7fff_ffff),
                                           b.get("offset").and_then(|x| x.as_u64()).unwrap_or(0).min(0x7fff_ffff)]));
                    }
                }
            }
            ev.insert("listed".into(), Value::Array(listed));
            let (top, _) = reader::parse_boxes(&data, 0, data.len(), false, 99);
            ev.insert("top".into(), Value::Array(top.iter().map(|n| json!([reader::type_str(&n.typ), n.size.min(0x7fff_ffff), n.off])).collect()));
            ev.insert("opts".into(), json!({"len": data.len()}));
            let _ = bytes_json;
        }
    }
    let _ = std::fs::remove_dir_all(&dir);
    Value::Object(ev)
}
