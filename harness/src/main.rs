//! muxide verification harness.
//!
//!   harness replay --in FILE --out DIR --shards N
//!       FILE: ndjson, one instance per line: {"cfg":{..}, "calls":[..], "rel":"none|layout|filtered|alias|meta|modes"}
//!       writes DIR/shard_<k>.ndjson (trace events for the TLA+ trace specifications)
//!
//! Other subcommands live in their own modules (drive, frag, fnt, sink, cli).
use muxide_verif_harness::exec::{self, BuildStyle, Cfg, RunOpts, RunResult};
use muxide_verif_harness::out::TraceWriter;
use muxide_verif_harness::pairs;
use serde_json::{json, Value};
use std::io::BufRead;
use std::sync::atomic::{AtomicUsize, Ordering};
use std::sync::Arc;

fn arg(args: &[String], name: &str) -> Option<String> {
    args.iter().position(|a| a == name).and_then(|i| args.get(i + 1).cloned())
}

fn with_field(cfg: &Value, k: &str, v: Value) -> Value {
    let mut c = cfg.clone();
    c.as_object_mut().unwrap().insert(k.to_string(), v);
    c
}

fn without_field(cfg: &Value, k: &str) -> Value {
    let mut c = cfg.clone();
    c.as_object_mut().unwrap().remove(k);
    c
}

fn emit(w: &mut TraceWriter, r: &RunResult) {
    for e in &r.events {
        w.write(e);
    }
}

fn summarise(line_no: u64, line: &Value, a: &RunResult) -> Value {
    let calls = line.get("calls").and_then(|c| c.as_array()).map(|c| c.len()).unwrap_or(0);
    let mut nv = 0;
    let mut na = 0;
    let mut rej = 0;
    let mut fin = 0;
    let mut rej_then_ok = false;
    let mut seen_rej = false;
    let mut segs = 0;
    for e in &a.events {
        let ev = e.get("ev").and_then(|x| x.as_str()).unwrap_or("");
        let ok = e.get("ok").and_then(|x| x.as_bool()).unwrap_or(false);
        let op = e.get("op").and_then(|x| x.as_str()).unwrap_or("");
        if ev == "call" {
            if ok {
                if op == "wa" || op == "ea" { na += 1 } else { nv += 1 }
                if seen_rej { rej_then_ok = true; }
            } else {
                rej += 1;
                seen_rej = true;
            }
        } else if ev == "fin" {
            fin += 1;
            if seen_rej { rej_then_ok = true; }
        } else if ev == "f_flush" && e.get("some").and_then(|x| x.as_bool()).unwrap_or(false) {
            segs += 1;
        }
    }
    let mut h = std::collections::hash_map::DefaultHasher::new();
    use std::hash::{Hash, Hasher};
    line.to_string().hash(&mut h);
    json!({"line": line_no, "calls": calls, "nv": nv, "na": na, "rej": rej, "fin": fin, "rej_then_ok": rej_then_ok,
           "segs": segs, "crashed": a.crashed, "hash": format!("{:016x}", h.finish())})
}

/// Executes one input line; returns number of instances run.
fn run_line(line_no: u64, line: &Value, w: &mut TraceWriter, summ: &mut Vec<Value>) -> usize {
    let cfgv = line.get("cfg").cloned().unwrap_or(json!({}));
    let calls: Vec<Value> = line.get("calls").and_then(|c| c.as_array()).cloned().unwrap_or_default();
    let rel = line.get("rel").and_then(|r| r.as_str()).unwrap_or("none");
    let base = line_no * 8;
    let opts = RunOpts::default();
    if line.get("kind").and_then(|k| k.as_str()) == Some("cli") {
        let bin = std::env::var("VERIF_MUXIDE_BIN").unwrap_or_else(|_| "/verif/harness/target/repo/debug/muxide".into());
        let workdir = std::env::var("VERIF_WORKDIR").unwrap_or_else(|_| "/verif/work".into());
        let ev = muxide_verif_harness::cli::run_cli_line(base, line, &bin, &workdir);
        w.write(&ev);
        summ.push(json!({"line": line_no, "calls": 1, "nv": 0, "na": 0, "rej": 0, "fin": 0, "rej_then_ok": false, "segs": 0, "crashed": false,
                         "hash": format!("{:x}", { use std::hash::{Hash, Hasher}; let mut h = std::collections::hash_map::DefaultHasher::new(); line.to_string().hash(&mut h); h.finish() })}));
        return 1;
    }
    if line.get("kind").and_then(|k| k.as_str()) == Some("frag") {
        let c = Cfg { json: cfgv.clone() };
        let a = exec::run_frag_instance(base, &c, &calls);
        summ.push(summarise(line_no, line, &a));
        emit(w, &a);
        if rel == "filtered" {
            // H' = H without the rejected writes
            let mut kept = Vec::new();
            let mut kept_outcomes = Vec::new();
            for (i, call) in calls.iter().enumerate() {
                if i >= a.outcomes.len() {
                    break;
                }
                if a.outcomes[i].0 {
                    kept.push(call.clone());
                    kept_outcomes.push(a.outcomes[i].clone());
                }
            }
            let b = exec::run_frag_instance(base + 1, &c, &kept);
            emit(w, &b);
            let a_kept = RunResult { events: vec![], outcomes: kept_outcomes, stats: None, bytes: a.bytes.clone(), crashed: a.crashed, writes: vec![] };
            if !a.crashed && !b.crashed {
                w.write(&pairs::pair_same(base, "filtered", "fragmented", &a_kept, &b, None));
            }
            return 2;
        }
        return 1;
    }
    match rel {
        "layout" => {
            let ca = Cfg { json: with_field(&cfgv, "fast", json!(true)) };
            let cb = Cfg { json: with_field(&cfgv, "fast", json!(false)) };
            let a = exec::run_instance(base, &ca, &calls, &opts);
            let b = exec::run_instance(base + 1, &cb, &calls, &opts);
            summ.push(summarise(line_no, line, &a));
            emit(w, &a);
            emit(w, &b);
            w.write(&pairs::pair_layout(base, &a, &b));
            2
        }
        "filtered" => {
            let c = Cfg { json: cfgv.clone() };
            let a = exec::run_instance(base, &c, &calls, &opts);
            // H' = H without the frame-writing calls that were rejected
            let mut kept = Vec::new();
            let mut kept_outcomes = Vec::new();
            for (i, call) in calls.iter().enumerate() {
                if i >= a.outcomes.len() {
                    break;
                }
                let is_fin = call.get("op").and_then(|o| o.as_str()) == Some("fin");
                if is_fin || a.outcomes[i].0 {
                    kept.push(call.clone());
                    kept_outcomes.push(a.outcomes[i].clone());
                }
            }
            let b = exec::run_instance(base + 1, &c, &kept, &opts);
            summ.push(summarise(line_no, line, &a));
            emit(w, &a);
            emit(w, &b);
            // compare: outcomes of the kept calls in H with the outcomes of H'
            let a_kept = RunResult { events: vec![], outcomes: kept_outcomes, stats: a.stats, bytes: a.bytes.clone(), crashed: a.crashed, writes: vec![] };
            if !a.crashed && !b.crashed {
                w.write(&pairs::pair_same(base, "filtered", "history", &a_kept, &b, None));
            }
            2
        }
        "alias" => {
            let c = Cfg { json: cfgv.clone() };
            let a = exec::run_instance(base, &c, &calls, &opts);
            let b = exec::run_instance(base + 1, &c, &calls, &RunOpts { style: BuildStyle::Alias, ..RunOpts::default() });
            summ.push(summarise(line_no, line, &a));
            emit(w, &a);
            emit(w, &b);
            if !a.crashed && !b.crashed {
                w.write(&pairs::pair_same(base, "alias", "builder", &a, &b, None));
            }
            2
        }
        "modes" => {
            let c = Cfg { json: cfgv.clone() };
            // muxers of other codecs that run in between / next to the behaviour under test
            let others: Vec<(Cfg, Vec<Value>)> = line.get("others").and_then(|o| o.as_array()).map(|a| {
                a.iter().map(|x| (Cfg { json: x["cfg"].clone() }, x["calls"].as_array().cloned().unwrap_or_default())).collect()
            }).unwrap_or_default();
            let mut evs = Vec::new();
            let workdir = std::env::var("VERIF_WORKDIR").unwrap_or_else(|_| "/verif/work".into());
            let a = muxide_verif_harness::modes::run_modes(base, &c, &calls, &others, &workdir, &mut evs);
            summ.push(summarise(line_no, line, &a));
            for e in &evs {
                w.write(e);
            }
            2
        }
        "equiv" => {
            // the same behaviour through the convenience calls and through their explicit form
            let c = Cfg { json: cfgv.clone() };
            let calls2: Vec<Value> = line.get("calls2").and_then(|c| c.as_array()).cloned().unwrap_or_default();
            let a = exec::run_instance(base, &c, &calls, &opts);
            let b = exec::run_instance(base + 1, &c, &calls2, &opts);
            summ.push(summarise(line_no, line, &a));
            emit(w, &a);
            emit(w, &b);
            if !a.crashed && !b.crashed {
                w.write(&pairs::pair_same(base, "alias", "convenience", &a, &b, None));
            }
            2
        }
        "meta" => {
            let c = Cfg { json: cfgv.clone() };
            let cn = Cfg { json: without_field(&cfgv, "meta") };
            let a = exec::run_instance(base, &c, &calls, &opts);
            let b = exec::run_instance(base + 1, &cn, &calls, &opts);
            summ.push(summarise(line_no, line, &a));
            emit(w, &a);
            emit(w, &b);
            if !a.crashed && !b.crashed {
                w.write(&pairs::pair_meta(base, &a, &b));
            }
            2
        }
        _ => {
            let c = Cfg { json: cfgv };
            let a = exec::run_instance(base, &c, &calls, &opts);
            summ.push(summarise(line_no, line, &a));
            emit(w, &a);
            1
        }
    }
}

/// Fault enumeration for one history (C13).  Emits one instance per fault schedule.
fn run_sink_line(line_no: u64, line: &Value, w: &mut TraceWriter, summ: &mut Vec<Value>) -> usize {
    use muxide_verif_harness::exec::Resp;
    let cfg = Cfg { json: line.get("cfg").cloned().unwrap_or(json!({})) };
    let calls: Vec<Value> = line.get("calls").and_then(|c| c.as_array()).cloned().unwrap_or_default();
    let mode = line.get("enum").and_then(|r| r.as_str()).unwrap_or("calls");
    let clean = exec::run_instance(line_no * 100_000, &cfg, &calls, &RunOpts { project: false, ..RunOpts::default() });
    let f = clean.bytes.clone();
    let nwrites = clean.writes.len();
    // fault schedules
    let mut schedules: Vec<(Vec<Resp>, Option<Resp>, Vec<usize>, usize)> = Vec::new(); // script, after, cuts, chunk
    let ok = Resp::Accept(usize::MAX);
    if mode == "calls" {
        let kinds: Vec<Resp> = vec![
            Resp::Fail(std::io::ErrorKind::Other),
            Resp::Fail(std::io::ErrorKind::BrokenPipe),
            Resp::Fail(std::io::ErrorKind::WouldBlock),
            Resp::Fail(std::io::ErrorKind::TimedOut),
            Resp::Fail(std::io::ErrorKind::UnexpectedEof),
            Resp::Zero,
        ];
        for wi in 0..nwrites {
            for k in &kinds {
                let mut sc = vec![ok.clone(); wi];
                sc.push(k.clone());
                // after the fault the sink keeps failing the same way
                schedules.push((sc, Some(k.clone()), vec![], 0));
            }
            // interruptions and short writes at this call, everything else accepted
            for reps in [1usize, 3] {
                let mut sc = vec![ok.clone(); wi];
                for _ in 0..reps {
                    sc.push(Resp::Intr);
                }
                schedules.push((sc, None, vec![], 0));
            }
            let mut sc = vec![ok.clone(); wi];
            sc.push(Resp::Accept(1));
            schedules.push((sc, None, vec![], 0));
            let offered = clean.writes[wi].0;
            if offered >= 2 {
                let mut sc = vec![ok.clone(); wi];
                sc.push(Resp::Accept(offered - 1));
                schedules.push((sc, None, vec![], 0));
            }
            // partial acceptance followed by an interruption of the remainder (and repetitions)
            if offered >= 2 {
                let mut sc = vec![ok.clone(); wi];
                sc.push(Resp::Accept(1));
                sc.push(Resp::Intr);
                schedules.push((sc, None, vec![], 0));
                let mut sc = vec![ok.clone(); wi];
                sc.push(Resp::Accept(offered - 1));
                sc.push(Resp::Intr);
                sc.push(Resp::Intr);
                schedules.push((sc, None, vec![], 0));
                if offered >= 3 {
                    let mut sc = vec![ok.clone(); wi];
                    sc.extend([Resp::Accept(1), Resp::Intr, Resp::Accept(1), Resp::Intr, Resp::Accept(1)]);
                    schedules.push((sc, None, vec![], 0));
                    // partial acceptance followed by a failure
                    let mut sc = vec![ok.clone(); wi];
                    sc.push(Resp::Accept(1));
                    sc.push(Resp::Fail(std::io::ErrorKind::Other));
                    schedules.push((sc, Some(Resp::Fail(std::io::ErrorKind::Other)), vec![], 0));
                }
            }
            // a fault that heals: fail once with Interrupted-like retry is covered; fail then accept:
            let mut sc = vec![ok.clone(); wi];
            sc.push(Resp::Fail(std::io::ErrorKind::Other));
            schedules.push((sc, None, vec![], 0));
        }
        // seeded random schedules of shortening / interrupting responses (never failing), and with one failure
        let seed = line.get("seed").and_then(|x| x.as_u64()).unwrap_or(1);
        let mut x = seed.wrapping_mul(0x9E3779B97F4A7C15) ^ (line_no + 1);
        let mut next = move || {
            x ^= x << 13;
            x ^= x >> 7;
            x ^= x << 17;
            x
        };
        let nrand = line.get("nrand").and_then(|x| x.as_u64()).unwrap_or(20) as usize;
        for r in 0..nrand {
            let mut sc = Vec::new();
            for _ in 0..(4 * nwrites.max(1)) {
                sc.push(match next() % 5 {
                    0 => Resp::Intr,
                    1 => Resp::Accept(1),
                    2 => Resp::Accept(1 + (next() % 9) as usize),
                    _ => ok.clone(),
                });
            }
            if r % 4 == 3 {
                let at = (next() as usize) % sc.len();
                sc[at] = Resp::Fail(std::io::ErrorKind::Other);
                sc.truncate(at + 1);
                schedules.push((sc, Some(Resp::Zero), vec![], 0));
            } else {
                schedules.push((sc, None, vec![], 0));
            }
        }
        schedules.push((vec![], None, vec![], 1)); // one byte at a time
        schedules.push((vec![], None, vec![], 7));
    } else {
        // every byte offset as a short-write cut
        for b in 1..f.len() {
            schedules.push((vec![], None, vec![b], 0));
        }
    }
    let mut n = 0;
    for (k, (script, after, cuts, chunk)) in schedules.into_iter().enumerate() {
        let id = line_no * 100_000 + 1 + k as u64;
        let opts = RunOpts { script, after, cuts, sink_chunk: chunk, ..RunOpts::default() };
        let r = exec::run_instance(id, &cfg, &calls, &opts);
        // interleave: the sink writes of a call are logged just before the call's own event
        let mut delivered = 0usize;
        let mut widx = 0usize;
        for e in &r.events {
            let wa = e.get("wa").and_then(|x| x.as_u64()).unwrap_or(0) as usize;
            while widx < wa.min(r.writes.len()) {
                let (len, tag, acc) = &r.writes[widx];
                delivered += acc;
                let upto = delivered.min(r.bytes.len());
                let common = r.bytes[..upto].iter().zip(f.iter()).take_while(|(x, y)| x == y).count();
                let resp = if tag.starts_with("fail") { "fail" } else { tag.as_str() };
                w.write(&json!({"ev": "sw", "i": id, "len": len, "resp": resp, "tag": tag, "acc": acc,
                                "delivered": delivered, "common": common, "flen": f.len()}));
                widx += 1;
            }
            let mut e2 = e.clone();
            if e2.get("ev").and_then(|x| x.as_str()) == Some("fin") {
                let m = e2.as_object_mut().unwrap();
                m.insert("flen".into(), json!(f.len()));
                m.insert("same_as_clean".into(), json!(r.bytes == f));
            }
            w.write(&e2);
        }
        {
            let mut sm = summarise(line_no, line, &r);
            let nonfull = r.writes.iter().any(|(len, tag, acc)| tag != "acc" || acc != len);
            let m = sm.as_object_mut().unwrap();
            m.insert("hash".into(), json!(format!("{}-{}", m["hash"].as_str().unwrap_or(""), k)));
            m.insert("sched_nonfull".into(), json!(nonfull));
            summ.push(sm);
        }
        n += 1;
    }
    let _ = summ;
    n
}

fn cmd_replay(args: &[String]) {
    let input = arg(args, "--in").expect("--in");
    let out = arg(args, "--out").expect("--out");
    let shards: usize = arg(args, "--shards").and_then(|s| s.parse().ok()).unwrap_or(8);
    std::fs::create_dir_all(&out).unwrap();
    let f = std::fs::File::open(&input).unwrap_or_else(|e| {
        eprintln!("TOOL-ERROR cannot open {}: {}", input, e);
        std::process::exit(2)
    });
    let lines: Vec<String> = std::io::BufReader::new(f).lines().map(|l| l.unwrap()).filter(|l| !l.trim().is_empty()).collect();
    let lines = Arc::new(lines);
    let line_timeout: u64 = arg(args, "--line-timeout").and_then(|s| s.parse().ok()).unwrap_or(20);
    // watchdog: (line index + 1, start time in ms) per shard; a line that runs longer than the limit is a hang
    let progress: Arc<Vec<(std::sync::atomic::AtomicU64, std::sync::atomic::AtomicU64)>> =
        Arc::new((0..shards).map(|_| (std::sync::atomic::AtomicU64::new(0), std::sync::atomic::AtomicU64::new(0))).collect());
    let t0 = std::time::Instant::now();
    {
        let progress = progress.clone();
        std::thread::spawn(move || loop {
            std::thread::sleep(std::time::Duration::from_millis(250));
            let now = t0.elapsed().as_millis() as u64;
            for p in progress.iter() {
                let k = p.0.load(Ordering::Relaxed);
                let st = p.1.load(Ordering::Relaxed);
                if k > 0 && now > st + line_timeout * 1000 {
                    println!("{}", json!({"hang_line": k - 1, "seconds": line_timeout}));
                    std::process::exit(3);
                }
            }
        });
    }
    let total_inst = Arc::new(AtomicUsize::new(0));
    let total_ev = Arc::new(AtomicUsize::new(0));
    let mut handles = vec![];
    for s in 0..shards {
        let lines = lines.clone();
        let out = out.clone();
        let ti = total_inst.clone();
        let te = total_ev.clone();
        let progress = progress.clone();
        handles.push(std::thread::spawn(move || {
            exec::install_panic_hook();
            let mut w = TraceWriter::create(&format!("{}/shard_{}.ndjson", out, s));
            let mut summ: Vec<Value> = Vec::new();
            let mut k = s;
            while k < lines.len() {
                let v: Value = match serde_json::from_str(&lines[k]) {
                    Ok(v) => v,
                    Err(e) => {
                        eprintln!("TOOL-ERROR bad input line {}: {}", k, e);
                        std::process::exit(2);
                    }
                };
                progress[s].1.store(t0.elapsed().as_millis() as u64, Ordering::Relaxed);
                progress[s].0.store(k as u64 + 1, Ordering::Relaxed);
                let n = if v.get("enum").is_some() {
                    run_sink_line(k as u64, &v, &mut w, &mut summ)
                } else {
                    run_line(k as u64, &v, &mut w, &mut summ)
                };
                ti.fetch_add(n, Ordering::Relaxed);
                k += shards;
            }
            progress[s].0.store(0, Ordering::Relaxed);
            let n = w.finish();
            te.fetch_add(n, Ordering::Relaxed);
            let mut sw = TraceWriter::create(&format!("{}/summary_{}.ndjson", out, s));
            for x in &summ {
                sw.write(x);
            }
            sw.finish();
        }));
    }
    for h in handles {
        h.join().unwrap();
    }
    println!(
        "{}",
        json!({"lines": lines.len(), "instances": total_inst.load(Ordering::Relaxed), "events": total_ev.load(Ordering::Relaxed), "shards": shards})
    );
}

fn main() {
    exec::install_panic_hook();
    let args: Vec<String> = std::env::args().collect();
    match args.get(1).map(|s| s.as_str()) {
        Some("replay") => cmd_replay(&args[2..]),
        Some("dates") => {
            let a = &args[2..];
            let g = |n: &str, d: u64| arg(a, n).and_then(|s| s.parse().ok()).unwrap_or(d);
            let (from, to, stride) = (g("--from", 0), g("--to", 2932896), g("--stride", 1));
            let shards = g("--shards", 16) as usize;
            let out = arg(a, "--out").expect("--out");
            let n = muxide_verif_harness::dates::run(from, to, stride, &out, shards);
            println!("{}", json!({"instances": (to - from) / stride + 1, "events": n, "shards": shards}));
        }
        Some("valtab") => {
            let a = &args[2..];
            let input = arg(a, "--in").expect("--in");
            let out = arg(a, "--out").expect("--out");
            let f = std::fs::File::open(&input).expect("input");
            let frames: Vec<Vec<u8>> = std::io::BufReader::new(f).lines().map(|l| l.unwrap()).filter(|l| !l.trim().is_empty())
                .map(|l| exec::bytes_of(&serde_json::from_str::<Value>(&l).unwrap())).collect();
            let n = muxide_verif_harness::valtab::run(&out, &frames);
            println!("{}", json!({"instances": n, "events": n, "shards": 1}));
        }
        Some("fnlist") => {
            // explicit byte strings (one JSON array per line) through the function tables
            let a = &args[2..];
            let input = arg(a, "--in").expect("--in");
            let out = arg(a, "--out").expect("--out");
            let shards: usize = arg(a, "--shards").and_then(|s| s.parse().ok()).unwrap_or(8);
            std::fs::create_dir_all(&out).unwrap();
            let f = std::fs::File::open(&input).expect("input");
            let strings: Vec<Vec<u8>> = std::io::BufReader::new(f).lines().map(|l| l.unwrap()).filter(|l| !l.trim().is_empty())
                .map(|l| exec::bytes_of(&serde_json::from_str::<Value>(&l).unwrap())).collect();
            let mut events = 0;
            for s in 0..shards {
                let mut w = TraceWriter::create(&format!("{}/shard_{}.ndjson", out, s));
                w.write(&json!({"ev": "fnhdr", "base": s, "stride": shards, "maxlen": 0, "alpha": [0], "cfg": true, "explicit": true}));
                let mut k = s;
                while k < strings.len() {
                    w.write(&muxide_verif_harness::fnt::fn_event(k as u64, &strings[k], true));
                    k += shards;
                }
                events += w.finish();
            }
            println!("{}", json!({"instances": strings.len(), "events": events, "shards": shards}));
        }
        Some("fnone") => {
            // a single table entry (replay of a reported violation)
            let a = &args[2..];
            let alpha: Vec<u8> = arg(a, "--alpha").unwrap().split(',').map(|x| x.parse().unwrap()).collect();
            let k: u64 = arg(a, "--k").and_then(|s| s.parse().ok()).unwrap_or(0);
            let out = arg(a, "--out").expect("--out");
            let with_cfg = a.iter().any(|x| x == "--cfg");
            std::fs::create_dir_all(&out).unwrap();
            let mut w = TraceWriter::create(&format!("{}/shard_0.ndjson", out));
            w.write(&json!({"ev": "fnhdr", "base": k, "stride": 1, "maxlen": 0, "alpha": alpha, "cfg": with_cfg}));
            let d = muxide_verif_harness::fnt::str_of(k, &alpha);
            w.write(&muxide_verif_harness::fnt::fn_event(k, &d, with_cfg));
            let n = w.finish();
            println!("{}", json!({"instances": 1, "events": n, "shards": 1}));
        }
        Some("fnt") => {
            let a = &args[2..];
            let alpha: Vec<u8> = arg(a, "--alpha").unwrap_or("0,1,2,3,255".into()).split(',').map(|x| x.parse().unwrap()).collect();
            let maxlen: usize = arg(a, "--maxlen").and_then(|s| s.parse().ok()).unwrap_or(5);
            let shards: usize = arg(a, "--shards").and_then(|s| s.parse().ok()).unwrap_or(16);
            let out = arg(a, "--out").expect("--out");
            let with_cfg = a.iter().any(|x| x == "--cfg");
            let (tot, events) = muxide_verif_harness::fnt::run(&alpha, maxlen, &out, shards, with_cfg);
            println!("{}", json!({"instances": tot, "events": events, "shards": shards}));
        }
        _ => {
            eprintln!("usage: harness replay --in FILE --out DIR --shards N");
            std::process::exit(2);
        }
    }
}
