//! Pure-function tables: every byte string up to a length bound over a small alphabet through the
//! public functions of codec::{common,h264,h265,...}.  The harness is only the enumerator; TLC is
//! the judge and the completeness check (event k must carry the k-th string of the canonical
//! enumeration defined in TraceFn.tla).
use crate::exec::{bytes_json, catch};
use crate::out::TraceWriter;
use muxide::api::{AacProfile, AudioCodec, VideoCodec};
use muxide::codec;
use serde_json::{json, Map, Value};

/// k-th string (0-based) in length-lexicographic order over `alpha`.
pub fn str_of(mut k: u64, alpha: &[u8]) -> Vec<u8> {
    let b = alpha.len() as u64;
    let mut len = 0usize;
    let mut count = 1u64; // b^len
    while k >= count {
        k -= count;
        count *= b;
        len += 1;
    }
    let mut out = vec![0u8; len];
    for i in (0..len).rev() {
        out[i] = alpha[(k % b) as usize];
        k /= b;
    }
    out
}

pub fn total(maxlen: usize, b: u64) -> u64 {
    let mut t = 0u64;
    let mut c = 1u64;
    for _ in 0..=maxlen {
        t += c;
        c *= b;
    }
    t
}

fn opt_pair(r: Option<(usize, usize)>) -> Value {
    match r {
        Some((p, l)) => json!([p + 1, l]), // 1-based position for TLA+
        None => json!([0, 0]),
    }
}

fn probe_panics(d: &[u8], panics: &mut Vec<Value>) {
    macro_rules! p {
        ($name:expr, $e:expr) => {
            if let Err(m) = catch(|| {
                let _ = $e;
            }) {
                panics.push(json!({"f": $name, "msg": m}));
            }
        };
    }
    p!("codec::h264::is_h264_keyframe", codec::h264::is_h264_keyframe(d));
    p!("codec::h265::is_hevc_keyframe", codec::h265::is_hevc_keyframe(d));
    p!("codec::h265::hevc_nal_type", codec::h265::hevc_nal_type(d));
    p!("codec::av1::extract_av1_config", codec::av1::extract_av1_config(d));
    p!("codec::av1::is_av1_keyframe", codec::av1::is_av1_keyframe(d));
    p!("codec::av1::parse_obu_header", codec::av1::parse_obu_header(d));
    p!("codec::av1::read_leb128", codec::av1::read_leb128(d));
    p!("codec::av1::ObuIter", codec::av1::ObuIter::new(d).count());
    p!("codec::vp9::extract_vp9_config", codec::vp9::extract_vp9_config(d));
    p!("codec::vp9::is_vp9_keyframe", codec::vp9::is_vp9_keyframe(d));
    p!("codec::vp9::is_valid_vp9_frame", codec::vp9::is_valid_vp9_frame(d));
    p!("codec::opus::is_valid_opus_packet", codec::opus::is_valid_opus_packet(d));
    p!("codec::opus::opus_packet_samples", codec::opus::opus_packet_samples(d));
    p!("codec::opus::opus_frame_count", codec::opus::opus_frame_count(d));
    for vc in [VideoCodec::H264, VideoCodec::H265, VideoCodec::Av1, VideoCodec::Vp9] {
        for key in [true, false] {
            p!("validation::validate_video_frame", muxide::validation::validate_video_frame(vc, d, key));
        }
    }
    for ac in [AudioCodec::Aac(AacProfile::Lc), AudioCodec::Opus, AudioCodec::None] {
        p!("validation::validate_audio_frame", muxide::validation::validate_audio_frame(ac, d));
    }
}

pub fn fn_event(k: u64, d: &[u8], with_cfg: bool) -> Value {
    let mut m = Map::new();
    m.insert("ev".into(), json!("fn"));
    m.insert("k".into(), json!(k));
    m.insert("in".into(), bytes_json(d));
    let mut panics: Vec<Value> = Vec::new();
    match catch(|| codec::h264::annexb_to_avcc(d)) {
        Ok(v) => {
            m.insert("avcc".into(), bytes_json(&v));
        }
        Err(e) => panics.push(json!({"f": "codec::h264::annexb_to_avcc", "msg": e})),
    }
    match catch(|| codec::h265::hevc_annexb_to_hvcc(d)) {
        Ok(v) => {
            m.insert("hvcc".into(), bytes_json(&v));
        }
        Err(e) => panics.push(json!({"f": "codec::h265::hevc_annexb_to_hvcc", "msg": e})),
    }
    match catch(|| codec::AnnexBNalIter::new(d).map(|u| u.to_vec()).collect::<Vec<_>>()) {
        Ok(v) => {
            m.insert("iter".into(), Value::Array(v.iter().map(|u| bytes_json(u)).collect()));
        }
        Err(e) => panics.push(json!({"f": "codec::AnnexBNalIter", "msg": e})),
    }
    match catch(|| (0..=d.len() + 1).map(|from| codec::find_start_code(d, from)).collect::<Vec<_>>()) {
        Ok(v) => {
            m.insert("fsc".into(), Value::Array(v.into_iter().map(opt_pair).collect()));
        }
        Err(e) => panics.push(json!({"f": "codec::find_start_code", "msg": e})),
    }
    if with_cfg {
        match catch(|| codec::h264::extract_avc_config(d)) {
            Ok(Some(c)) => {
                m.insert("avc".into(), json!({"some": true, "sps": bytes_json(&c.sps), "pps": bytes_json(&c.pps)}));
            }
            Ok(None) => {
                m.insert("avc".into(), json!({"some": false}));
            }
            Err(e) => panics.push(json!({"f": "codec::h264::extract_avc_config", "msg": e})),
        }
        match catch(|| codec::h265::extract_hevc_config(d)) {
            Ok(Some(c)) => {
                m.insert("hevc".into(), json!({"some": true, "vps": bytes_json(&c.vps), "sps": bytes_json(&c.sps), "pps": bytes_json(&c.pps)}));
            }
            Ok(None) => {
                m.insert("hevc".into(), json!({"some": false}));
            }
            Err(e) => panics.push(json!({"f": "codec::h265::extract_hevc_config", "msg": e})),
        }
        if let Ok(b) = catch(|| codec::h264::is_h264_keyframe(d)) {
            m.insert("key264".into(), json!(b));
        }
        if let Ok(b) = catch(|| codec::h265::is_hevc_keyframe(d)) {
            m.insert("key265".into(), json!(b));
        }
    }
    // decoder-configuration extraction and packet validity, as values (judged against Av1Seq / Vp9Hdr / OpusPkt)
    match catch(|| codec::av1::extract_av1_config(d)) {
        Ok(Some(c)) => {
            m.insert("av1".into(), json!({"some": true, "profile": c.seq_profile, "level": c.seq_level_idx, "tier": c.seq_tier,
                "hb": c.high_bitdepth as u8, "tb": c.twelve_bit as u8, "mono": c.monochrome as u8,
                "sx": c.chroma_subsampling_x as u8, "sy": c.chroma_subsampling_y as u8, "csp": c.chroma_sample_position,
                "obu": bytes_json(&c.sequence_header)}));
        }
        Ok(None) => {
            m.insert("av1".into(), json!({"some": false}));
        }
        Err(_) => {}
    }
    match catch(|| codec::av1::parse_obu_header(d)) {
        Ok(Some(o)) => {
            m.insert("obu".into(), json!({"some": true, "type": o.obu_type, "ext": o.has_extension as u8,
                "hdr": o.header_size.min(0x7fff_ffff), "payload": o.payload_size.min(1_000_000_000), "total": o.total_size.min(0x7fff_ffff)}));
        }
        Ok(None) => {
            m.insert("obu".into(), json!({"some": false}));
        }
        Err(_) => {}
    }
    if let Ok(n) = catch(|| codec::av1::ObuIter::new(d).count()) {
        m.insert("obucount".into(), json!(n));
    }
    match catch(|| codec::vp9::extract_vp9_config(d)) {
        Ok(Some(c)) => {
            m.insert("vp9".into(), json!({"some": true, "profile": c.profile, "depth": c.bit_depth, "cs": c.color_space,
                "tf": c.transfer_function, "mc": c.matrix_coefficients, "fr": c.full_range_flag, "level": c.level}));
        }
        Ok(None) => {
            m.insert("vp9".into(), json!({"some": false}));
        }
        Err(_) => {}
    }
    if let Ok(r) = catch(|| codec::vp9::is_vp9_keyframe(d)) {
        m.insert("vp9key".into(), json!(match r { Ok(true) => "key", Ok(false) => "notkey", Err(_) => "err" }));
    }
    if let Ok(b) = catch(|| codec::vp9::is_valid_vp9_frame(d)) {
        m.insert("vp9valid".into(), json!(b));
    }
    if let Ok(b) = catch(|| codec::opus::is_valid_opus_packet(d)) {
        m.insert("opusvalid".into(), json!(b));
    }
    if let Ok(v) = catch(|| codec::opus::opus_packet_samples(d)) {
        m.insert("opussamples".into(), json!(v.map(|x| x as i64).unwrap_or(-1)));
    }
    probe_panics(d, &mut panics);
    m.insert("panics".into(), Value::Array(panics));
    Value::Object(m)
}

pub fn run(alpha: &[u8], maxlen: usize, out: &str, shards: usize, with_cfg: bool) -> (u64, u64) {
    std::fs::create_dir_all(out).unwrap();
    let tot = total(maxlen, alpha.len() as u64);
    let mut handles = vec![];
    for s in 0..shards {
        let alpha = alpha.to_vec();
        let out = out.to_string();
        handles.push(std::thread::spawn(move || {
            crate::exec::install_panic_hook();
            let mut w = TraceWriter::create(&format!("{}/shard_{}.ndjson", out, s));
            w.write(&json!({"ev": "fnhdr", "base": s, "stride": shards, "maxlen": maxlen,
                            "alpha": bytes_json(&alpha), "cfg": with_cfg}));
            let mut k = s as u64;
            while k < tot {
                let d = str_of(k, &alpha);
                w.write(&fn_event(k, &d, with_cfg));
                k += shards as u64;
            }
            w.write(&json!({"ev": "fnend"}));
            w.finish() as u64
        }));
    }
    let mut events = 0;
    for h in handles {
        events += h.join().unwrap();
    }
    (tot, events)
}
