"""Seeded random input generators.  They produce *inputs only* (configurations and call
sequences, same format as the REPLAY lines printed by TLC); they contain no expectations."""
import random

W30 = 1 << 30


def base_cfg(vc='h264', ac='none', **kw):
    c = {'vc': vc, 'w': 640, 'h': 480, 'ac': ac, 'prof': 'lc', 'rate': 48000, 'ch': 2, 'fast': True,
         'mode': 'third', 'unit': 1, 'w32': W30, 'i32': W30, 'w32dur': W30,
         'facets': {'bytes': True, 'timing': True, 'tree': False, 'raw': False}}
    c.update(kw)
    return c


def fin(n):
    return {'k': 'fin', 'n': n}


def pad(rng, n):
    # payload bytes that cannot emulate a start code or an OBU/marker prefix
    return [rng.randrange(16, 256) for _ in range(n)]


SPS_A = [0x67, 0x42, 0x00, 0x1e, 0x11]
SPS_B = [0x67, 0x64, 0x00, 0x28, 0xac, 0x2b]
PPS_A = [0x68, 0xce, 0x3c, 0x80]
PPS_B = [0x68, 0xee, 0x31]
SC3 = [0, 0, 1]
SC4 = [0, 0, 0, 1]
HVPS = [0x40, 0x01, 0x0c, 0x01]
HSPS = [0x42, 0x01, 0x01, 0x01, 0x60, 0x00, 0x00, 0x03, 0x00, 0x90, 0x00, 0x00, 0x03, 0x00, 0x00, 0x5d, 0xa0]
HPPS = [0x44, 0x01, 0xc0, 0x73]
AV1_SEQ = [0, 0, 0, 66, 98, 127, 239, 128, 48, 1]


def sc(rng):
    return SC4 if rng.random() < 0.5 else SC3


def video_frame(rng, vc, key, n):
    if vc == 'h264':
        if key:
            sps, pps = (SPS_A, PPS_A) if rng.random() < 0.5 else (SPS_B, PPS_B)
            d = sc(rng) + sps + sc(rng) + pps
            if rng.random() < 0.3:
                d += sc(rng) + [0x06, 0x05, 0x11]       # SEI
            return d + sc(rng) + [0x65] + pad(rng, n)
        return sc(rng) + [0x41, 0x9a] + pad(rng, n)
    if vc == 'h265':
        if key:
            return sc(rng) + HVPS + sc(rng) + HSPS + sc(rng) + HPPS + sc(rng) + [0x26, 0x01] + pad(rng, n)
        return sc(rng) + [0x02, 0x01] + pad(rng, n)
    if vc == 'av1':
        n = min(n, 120)
        if key:
            return [0x12, 0x00, 0x0a, len(AV1_SEQ)] + AV1_SEQ + [0x32, n + 1, 0x10] + pad(rng, n)
        return [0x12, 0x00, 0x32, n + 1, 0x30] + pad(rng, n)
    # vp9 (library form)
    if key:
        return [0x49, 0x83, 0x42, 0x00, 0x00, 0x80 | 64, 0x01, 0x80 | 48, 0x01, 0x02, 0x00] + pad(rng, n)
    return [0x49, 0x83, 0x42, 0x10, 0x00, 0x00] + pad(rng, n)


def adts(rng, n, sfi=3, chan=2, crc=False):
    hdr = 9 if crc else 7
    fl = hdr + n
    h = [0xff, 0xf0 | (0 if crc else 1), 0x40 | (sfi << 2) | (chan >> 2), ((chan & 3) << 6) | (fl >> 11),
         (fl >> 3) & 0xff, ((fl & 7) << 5) | 0x1f, 0xfc]
    if crc:
        h += [0xab, 0xcd]
    return h + pad(rng, n)


def audio_frame(rng, ac, n):
    if ac == 'aac':
        return adts(rng, n, crc=rng.random() < 0.2)
    toc = (rng.randrange(0, 32) << 3) | rng.choice([0, 1, 2])
    return [toc] + pad(rng, n)


def reorder_groups(rng, n):
    """decode-order index -> display slot, by groups anchor,b,b.. (anchor displayed last)"""
    slots = []
    i = 0
    while i < n:
        g = rng.choice([1, 1, 2, 3, 4]) if i > 0 else 1
        g = min(g, n - i)
        # decode order: anchor first, then the B frames; display: B frames then anchor
        slots.append(i + g - 1)
        for j in range(g - 1):
            slots.append(i + j)
        i += g
    return slots


def gen_mux(rng, tier, long_run=False):
    vc = rng.choice(['h264', 'h265', 'av1', 'vp9'])
    ac = rng.choice(['none', 'aac', 'aac', 'opus'])
    cfg = base_cfg(vc, ac)
    if ac == 'aac':
        cfg['prof'] = rng.choice(['lc', 'main', 'ssr', 'ltp', 'he', 'hev2'])
    if rng.random() < 0.4:
        meta = {}
        if rng.random() < 0.7:
            meta['title'] = list(('T' * rng.randrange(0, 40)).encode())
        if rng.random() < 0.5:
            meta['ct_days'] = rng.randrange(0, 30000)
            meta['ct_sod'] = rng.randrange(0, 86400)
        if rng.random() < 0.5:
            meta['lang'] = list(rng.choice(['eng', 'spa', 'und', 'zho']).encode())
        cfg['meta'] = meta
    nv = rng.randrange(2000, 20001) if long_run else rng.randrange(1, 12 if tier == 'quick' else 40)
    cadence = rng.choice([9000, 9009, 11261, 'vfr', 'ntsc24', 'ntsc60'])
    t0 = rng.choice([0, 0, 270000, rng.randrange(0, 100000)])
    reorder = (not long_run) and rng.random() < 0.5
    slots = reorder_groups(rng, nv) if reorder else list(range(nv))
    times = []
    t = t0
    for i in range(nv):
        if cadence == 'ntsc24':
            times.append(t0 + (i * 45045 + 2) // 4)        # 1001/24000 s = 11261.25 thirds of a tick per frame
            continue
        if cadence == 'ntsc60':
            times.append(t0 + (i * 9009 + 1) // 2)         # 1001/60000 s = 4504.5 thirds per frame
            continue
        times.append(t)
        t += cadence if cadence != 'vfr' else rng.randrange(2, 40000)
    step = cadence if isinstance(cadence, int) else (11261 if cadence == 'ntsc24' else 4504 if cadence == 'ntsc60' else 9000)
    delay = rng.choice([0, max(abs(slots[i] - i) for i in range(nv))]) if reorder else 0
    # presentation ahead of decoding (open GOP, leading pictures shown before the first decoded frame is decoded): possible
    # when the recording does not start at zero
    if (not long_run) and t0 >= 3 * step and rng.random() < 0.35:
        delay = rng.choice([-1, -2, -3])
    vcalls = []
    maxsz = 8 if long_run else (60 if tier == 'quick' else 200)
    for i in range(nv):
        key = (i == 0) or (not reorder and rng.random() < 0.1)
        # the submitted flag is what must be recorded: sometimes the payload says otherwise (IDR data flagged as
        # non-key, non-IDR data flagged as key)
        data_is_key = key if (i == 0 or rng.random() > 0.2) else (not key)
        data = video_frame(rng, vc, data_is_key, rng.randrange(1, maxsz))
        dts = times[i]
        pts = times[slots[i]] + delay * step
        if not reorder and rng.random() < 0.6:
            vcalls.append({'op': 'wv', 'pts': fin(pts), 'data': data, 'key': key})
        else:
            vcalls.append({'op': 'wvd', 'pts': fin(pts), 'dts': fin(dts), 'data': data, 'key': key})
    acalls = []
    if ac != 'none':
        na = 0 if rng.random() < 0.1 else (rng.randrange(1, 12 if tier == 'quick' else 50) if not long_run else rng.randrange(100, 400))
        first_v_pts = vcalls[0]['pts']['n']
        ta = first_v_pts + rng.choice([0, 0, 135000, rng.randrange(0, 50000)])
        astep_choice = rng.choice([None, None, 6269, 6271, 3135])   # constant non-integral tick cadences (44.1 kHz-like)
        for j in range(na):
            acalls.append({'op': 'wa', 'pts': fin(ta), 'data': audio_frame(rng, ac, rng.randrange(1, maxsz))})
            ta += astep_choice if astep_choice is not None else rng.choice([0, 5760, 6270, 6269, rng.randrange(0, 20000)])
    # random interleaving, video first
    calls = [vcalls[0]]
    vi, ai = 1, 0
    mode = rng.choice(['alt', 'vfirst', 'afirst', 'burst'])
    while vi < len(vcalls) or ai < len(acalls):
        if vi >= len(vcalls):
            pick = 'a'
        elif ai >= len(acalls):
            pick = 'v'
        elif mode == 'vfirst':
            pick = 'v'
        elif mode == 'afirst':
            pick = 'a'
        elif mode == 'burst':
            pick = rng.choice(['v', 'v', 'v', 'a']) if rng.random() < 0.5 else rng.choice(['a', 'a', 'a', 'v'])
        else:
            pick = rng.choice(['v', 'a'])
        if pick == 'v':
            calls.append(vcalls[vi])
            vi += 1
        else:
            calls.append(acalls[ai])
            ai += 1
    calls.append({'op': 'fin', 'how': rng.choice(['in_place_stats', 'finish_with_stats'])})
    return {'cfg': cfg, 'calls': calls}


def gen_frag(rng, tier):
    vc = rng.choice(['h264', 'h265', 'av1', 'vp9'])
    cfg = {'vc': vc, 'w': 640, 'h': 480, 'timescale': rng.choice([90000, 90000, 1000, 48000]), 'fragms': rng.choice([100, 500, 2000]),
           'via': 'config', 'unit': 1, 'unit1': True, 'judge_config': True, 'w32': W30, 'i32': W30,
           'facets': {'bytes': True, 'timing': True, 'tree': True, 'raw': rng.random() < 0.3}}
    if vc in ('h264', 'h265'):
        cfg['sps'] = SPS_A
        cfg['pps'] = PPS_A
    if vc == 'h265':
        cfg['vps'] = HVPS
    if vc == 'av1':
        cfg['av1'] = [0x0a, len(AV1_SEQ)] + AV1_SEQ
    if vc == 'vp9':
        cfg['vp9'] = {'width': 640, 'height': 480, 'profile': 0, 'bit_depth': 8, 'color_space': 1, 'transfer_function': 1,
                      'matrix_coefficients': 1, 'level': 10, 'full_range_flag': 0}
    n = rng.randrange(1, 30 if tier == 'quick' else 100)
    calls = []
    dts = rng.choice([0, 0, 9000, rng.randrange(0, 100000)])
    cadence = rng.choice([3000, 3003, 'vfr', 'eq'])
    for i in range(n):
        r = rng.random()
        if r < 0.12:
            calls.append({'op': 'ff'})
        elif r < 0.17:
            calls.append({'op': 'fr'})
        elif r < 0.2:
            calls.append({'op': 'fd'})
        elif r < 0.24:
            calls.append({'op': 'fi'})
        if rng.random() < 0.05 and dts > 10:
            bad = dts - rng.randrange(1, 10)
            calls.append({'op': 'fw', 'pts': bad, 'dts': bad, 'data': pad(rng, 3), 'sync': False})
        cts = rng.choice([0, 0, 3000, 6000, -1500 if dts >= 1500 else 0])
        calls.append({'op': 'fw', 'pts': dts + cts, 'dts': dts, 'data': pad(rng, rng.randrange(0, 40)), 'sync': rng.random() < 0.2})
        dts += cadence if isinstance(cadence, int) else (rng.randrange(0, 9000) if cadence == 'vfr' else rng.choice([0, 3000]))
    calls.append({'op': 'ff'})
    calls.append({'op': 'fi'})
    return {'kind': 'frag', 'cfg': cfg, 'calls': calls}


def gen_fragreject(rng, tier):
    """A rejected (lower) decode time, then writes at every position relative to it and to the last accepted one, with
    flushes before / after the rejection: the rejected value must leave no trace in later decisions or base times."""
    out = []
    for L in (3000, 9000):
        for r in (0, L - 1, L - 1500):
            for fb in (False, True):
                for fa in (False, True):
                    for x in (r, r + 1, (r + L) // 2, L - 1, L, L + 3000):
                        cfg = {'vc': 'h264', 'w': 640, 'h': 480, 'timescale': 90000, 'fragms': 100, 'via': 'config', 'unit': 1, 'unit1': True,
                               'judge_config': True, 'w32': W30, 'i32': W30, 'sps': SPS_A, 'pps': PPS_A,
                               'facets': {'bytes': True, 'timing': True, 'tree': True, 'raw': False}}
                        def w(t, sync=False):
                            return {'op': 'fw', 'pts': t, 'dts': t, 'data': pad(rng, 4), 'sync': sync}
                        calls = [w(0, True), w(L)]
                        if fb:
                            calls.append({'op': 'ff'})
                        calls.append(w(r))
                        if fa:
                            calls.append({'op': 'ff'})
                        calls += [w(x), w(max(L, x) + 3000), {'op': 'ff'}, w(max(L, x) + 6000), {'op': 'ff'}, {'op': 'fi'}]
                        out.append({'kind': 'frag', 'cfg': cfg, 'calls': calls})
    return out


def gen_keydetect(rng, tier):
    """Key-frame detection of the convenience API by NAL unit type: after a key frame, one encode_video call per NAL
    unit type of H.264 / H.265 (alone, and after a non-key slice); the recorded sync flag is what the model derives."""
    out = []
    F = {'bytes': True, 'timing': True, 'tree': False, 'raw': False}
    for vc, ntypes, mk in (('h264', 32, lambda t: [0x60 | t, 0x88, 0x84]), ('h265', 64, lambda t: [t << 1, 0x01, 0xaf])):
        for t in range(ntypes):
            for shape in (0, 1):
                cfg = base_cfg(vc, 'none')
                cfg['facets'] = F
                nal = mk(t)
                other = [0x41, 0x9a, 0x22] if vc == 'h264' else [0x02, 0x01, 0xd0]
                data = (SC4 + nal) if shape == 0 else (SC4 + other + SC3 + nal)
                calls = [{'op': 'ev', 'data': video_frame(rng, vc, True, 4), 'ms': 33},
                         {'op': 'ev', 'data': data, 'ms': 33},
                         {'op': 'ev', 'data': video_frame(rng, vc, False, 3), 'ms': 33},
                         {'op': 'fin', 'how': 'in_place_stats'}]
                out.append({'cfg': cfg, 'calls': calls})
    return out


def gen_ties(rng, tier):
    """Timestamps that are exact ties between two ticks: multiples of 1/32 s (2812.5 ticks; mode d32).  32 / 16 fps
    video, reordered video whose presentation and decode times are both ties, audio on the same grid."""
    out = []
    F = {'bytes': False, 'timing': True, 'tree': False, 'raw': False}
    pats = [[0, 1, 2, 3, 4, 5], [1, 2, 3, 4], [0, 2, 4, 6], [1, 3, 5, 7, 9], [5, 6, 9, 10, 13], [0, 1, 5, 6, 7]]
    for vc in ('h264', 'vp9'):
        for ac in ('none', 'opus', 'aac'):
            for pat in pats:
                for shape in ('plain', 'reorder', 'delay'):
                    cfg = base_cfg(vc, ac, mode='d32')
                    cfg['facets'] = F
                    calls = []
                    for k, j in enumerate(pat):
                        data = video_frame(rng, vc, k == 0, 3 + k)
                        if shape == 'plain':
                            calls.append({'op': 'wv', 'pts': fin(j), 'data': data, 'key': k == 0})
                        elif shape == 'delay':
                            calls.append({'op': 'wvd', 'pts': fin(j + 1), 'dts': fin(j), 'data': data, 'key': k == 0})
                        else:
                            p = j + (3 if k % 3 == 0 else 0 if k % 3 == 1 else 1)
                            calls.append({'op': 'wvd', 'pts': fin(p), 'dts': fin(j), 'data': data, 'key': k == 0})
                        if ac != 'none' and k < 4:
                            first = calls[0]['pts']['n']
                            calls.append({'op': 'wa', 'pts': fin(max(first, j) + (k % 2)), 'data': audio_frame(rng, ac, 4)})
                    calls.append({'op': 'fin', 'how': 'in_place_stats'})
                    # keep audio non-decreasing
                    last = -1
                    ok = True
                    for c in calls:
                        if c['op'] == 'wa':
                            if c['pts']['n'] < last:
                                c['pts'] = fin(last)
                            last = c['pts']['n']
                    out.append({'cfg': cfg, 'calls': calls})
    # frames that END in a start code (3 / 4 bytes, after zeros), and parameter sets followed by zero bytes before the next
    # start code: the stored sample and the configuration record follow the same unit boundaries
    for vc in ('h264', 'h265'):
        sps, pps = (SPS_A, PPS_A) if vc == 'h264' else (HSPS, HPPS)
        pre = [] if vc == 'h264' else SC4 + HVPS
        idr = [0x65, 0x88, 0x84] if vc == 'h264' else [0x26, 0x01, 0xaf]
        dlt = [0x41, 0x9a, 0x22] if vc == 'h264' else [0x02, 0x01, 0xd0]
        for tail in ([], SC3, SC4, [0] + SC3, [0, 0] + SC4, SC3 + SC3):
            for z1 in (0, 1, 2):
                for z2 in (0, 1):
                    for sc in (SC3, SC4):
                        cfg = base_cfg(vc, 'none')
                        cfg['facets'] = {'bytes': True, 'timing': False, 'tree': False, 'raw': True}
                        key = pre + sc + sps + [0] * z1 + sc + pps + [0] * z2 + SC3 + idr + tail
                        calls = [{'op': 'wv', 'pts': fin(0), 'data': key, 'key': True},
                                 {'op': 'wv', 'pts': fin(9000), 'data': SC4 + dlt + tail, 'key': False},
                                 {'op': 'fin', 'how': 'in_place_stats'}]
                        out.append({'cfg': cfg, 'calls': calls})
    return out


def gen_sink_histories(rng, tier, mode):
    out = []
    combos = [('h264', 'none', True, False), ('h264', 'none', False, False), ('h264', 'aac', True, False),
              ('h264', 'aac', False, True), ('vp9', 'opus', True, True), ('h265', 'aac', False, False),
              ('av1', 'none', True, True), ('h264', 'opus', False, False)]
    if mode == 'bytes':
        combos = combos[:4] if tier == 'quick' else combos
    for vc, ac, fast, meta in combos:
        cfg = base_cfg(vc, ac, fast=fast)
        if meta:
            cfg['meta'] = {'title': list(b'sink test'), 'ct_days': 20000, 'ct_sod': 3600, 'lang': list(b'eng')}
        calls = []
        t = 0
        nv = 3
        for i in range(nv):
            d = video_frame(rng, vc, i == 0, rng.randrange(3, 20))
            if i == 1:
                calls.append({'op': 'wvd', 'pts': fin(t + 18000), 'dts': fin(t), 'data': d, 'key': False})
            else:
                calls.append({'op': 'wv' if i == 0 else 'wvd', 'pts': fin(t if i == 0 else t - 9000), **({} if i == 0 else {'dts': fin(t)}),
                              'data': d, 'key': i == 0})
            if ac != 'none':
                calls.append({'op': 'wa', 'pts': fin(t), 'data': audio_frame(rng, ac, rng.randrange(2, 12))})
            t += 9000
        how = rng.choice(['in_place_stats', 'in_place'])
        calls.append({'op': 'fin', 'how': 'in_place_stats' if mode == 'bytes' else how})
        # every later API call once (after a failure nothing more may be written)
        calls.append({'op': 'wv', 'pts': fin(t + 9000), 'data': video_frame(rng, vc, False, 4), 'key': False})
        if ac != 'none':
            calls.append({'op': 'wa', 'pts': fin(t + 9000), 'data': audio_frame(rng, ac, 4)})
        calls.append({'op': 'fin', 'how': 'in_place_stats'})
        calls.append({'op': 'fin', 'how': 'finish'})
        out.append({'cfg': cfg, 'calls': calls, 'enum': mode})
    return out


def adts_raw(fl, prot_absent, buflen, sfi=3, chan=2, fill=0x21):
    """ADTS header with an explicit 13-bit frame length field, in a buffer of buflen bytes."""
    h = [0xff, 0xf0 | prot_absent, 0x40 | (sfi << 2) | (chan >> 2), ((chan & 3) << 6) | ((fl >> 11) & 3),
         (fl >> 3) & 0xff, ((fl & 7) << 5) | 0x1f, 0xfc]
    buf = h + [((fill + i) % 200) + 16 for i in range(max(0, buflen - 7))]
    return buf[:buflen]


def gen_adts(rng, tier):
    """Muxer instances whose audio frames sweep frame-length field x protection flag x buffer length."""
    frames = []
    if tier == 'quick':
        fls = list(range(0, 24)) + [255, 256, 257, 511, 512, 1023, 1024, 2047, 2048, 2049, 4095, 4096, 8190, 8191]
    else:
        fls = list(range(0, 8192))
    for fl in fls:
        for pa in (0, 1):
            variants = [fl] if (tier != 'quick' and 40 < fl < 8150 and fl % 64) else [fl - 1, fl, fl + 1, 6, 7, 8, 9]
            for bl in variants:
                if bl < 0:
                    continue
                frames.append(adts_raw(fl, pa, bl))
    # header field classes on a fixed length
    for sfi in range(16):
        for chan in range(8):
            frames.append(adts_raw(20, 1, 20, sfi=sfi, chan=chan))
    # number_of_raw_data_blocks_in_frame (low two bits of byte 6) and buffer fullness bits, with and without CRC
    for pa in (0, 1):
        for b6 in (0xfc, 0xfd, 0xfe, 0xff, 0x00, 0x03):
            for fl in (9, 10, 12, 16, 30):
                f = adts_raw(fl, pa, fl + 2)
                f[6] = b6
                frames.append(f)
    for b1 in (0xf1, 0xf9, 0xf3, 0xf5, 0xf7, 0xe1, 0x71):
        f = adts_raw(20, 1, 20)
        f[1] = b1
        frames.append(f)
    out = []
    per = 24
    for i in range(0, len(frames), per):
        cfg = base_cfg('h264', 'aac')
        calls = [{'op': 'wv', 'pts': fin(0), 'data': video_frame(rng, 'h264', True, 4), 'key': True}]
        for f in frames[i:i + per]:
            calls.append({'op': 'wa', 'pts': fin(0), 'data': f})
        calls.append({'op': 'fin', 'how': 'in_place_stats'})
        out.append({'cfg': cfg, 'calls': calls})
    return out


def gen_widths(rng, tier):
    """Progressive-file field-width boundaries (C16): parameter sets of 65535 / 65536 bytes in the first key frame,
    dimensions 65535 / 65536, Opus channel counts 255 / 256, sample rates 65535 / 65536 / 96000."""
    out = []
    F = {'bytes': False, 'timing': True, 'tree': True, 'raw': True}
    def one(cfg, first):
        cfg['facets'] = F
        out.append({'cfg': cfg, 'calls': [{'op': 'wv', 'pts': fin(0), 'data': first, 'key': True}] +
                    ([{'op': 'wa', 'pts': fin(0), 'data': audio_frame(rng, cfg['ac'], 5)}] if cfg['ac'] != 'none' else []) +
                    [{'op': 'fin', 'how': 'in_place_stats'}]})
    for n in (65535, 65536):
        sps = [0x67, 0x42, 0x00, 0x1e] + [((i * 7) % 200) + 20 for i in range(n - 4)]
        one(base_cfg('h264', 'none'), SC4 + sps + SC4 + PPS_A + SC3 + [0x65, 0x88, 0x84])
        pps = [0x68] + [((i * 5) % 200) + 20 for i in range(n - 1)]
        one(base_cfg('h264', 'none'), SC4 + SPS_A + SC4 + pps + SC3 + [0x65, 0x88, 0x84])
        hsps = HSPS + [((i * 3) % 200) + 20 for i in range(n - len(HSPS))]
        one(base_cfg('h265', 'none'), SC4 + HVPS + SC4 + hsps + SC4 + HPPS + SC3 + [0x26, 0x01, 0xaf])
        hvps = HVPS + [((i * 11) % 200) + 20 for i in range(n - len(HVPS))]
        one(base_cfg('h265', 'none'), SC4 + hvps + SC4 + HSPS + SC4 + HPPS + SC3 + [0x26, 0x01, 0xaf])
        hpps = HPPS + [((i * 13) % 200) + 20 for i in range(n - len(HPPS))]
        one(base_cfg('h265', 'none'), SC4 + HVPS + SC4 + HSPS + SC4 + hpps + SC3 + [0x26, 0x01, 0xaf])
    for (w, h) in ((65535, 65535), (65536, 480), (640, 65536)):
        one(base_cfg('h264', 'none', w=w, h=h), video_frame(rng, 'h264', True, 4))
    for ch in (255, 256, 65535):
        one(base_cfg('h264', 'opus', ch=ch), video_frame(rng, 'h264', True, 4))
    for rate in (65535, 65536, 88200, 96000):
        one(base_cfg('h264', 'aac', rate=rate), video_frame(rng, 'h264', True, 4))
    return out


def gen_layout(rng, tier):
    """Every codec x audio x metadata x fast-start configuration with a short valid history
    (zero frames, audio configured without audio frames, single frame, several frames)."""
    out = []
    dims = [(640, 480), (1920, 1080), (1, 1), (4096, 2160), (65535, 65535), (16, 16)]
    metas = [None, {'title': list('T'.encode())}, {'title': list('Tïtle ☃ 𝄞'.encode()), 'ct_days': 19000, 'ct_sod': 86399, 'lang': list(b'fra')},
             {'lang': list(b'deu')}, {'ct_days': 0, 'ct_sod': 0}, {'title': []}]
    auds = [('none', 0, 0), ('aac', 48000, 2), ('aac', 44100, 1), ('aac', 64000, 6), ('aac', 7350, 8), ('aac', 12345, 2),
            ('opus', 48000, 2), ('opus', 48000, 1), ('opus', 44100, 6)]
    rates13 = [88200, 64000, 48000, 44100, 32000, 24000, 22050, 16000, 12000, 11025, 8000, 7350, 65535, 1, 50000]
    for i, r in enumerate(rates13):
        auds.append(('aac', r, (i % 8) + 1))
    for ch in range(1, 9):
        auds.append(('opus', 48000, ch))
    k = 0
    for vc in ['h264', 'h265', 'av1', 'vp9']:
        for (ac, rate, ch) in auds:
            for fast in (True, False):
                for shape in ('empty', 'one', 'vonly', 'av'):
                    if tier == 'quick' and (k % 3) and shape in ('empty', 'vonly'):
                        k += 1
                        continue
                    k += 1
                    w, h = dims[k % len(dims)]
                    cfg = base_cfg(vc, ac, fast=fast, w=w, h=h, rate=rate or 48000, ch=ch or 2)
                    if ac == 'aac':
                        cfg['prof'] = ['lc', 'main', 'ssr', 'ltp', 'he', 'hev2'][k % 6]
                    m = metas[k % len(metas)]
                    if m is not None:
                        cfg['meta'] = m
                    calls = []
                    if shape != 'empty':
                        calls.append({'op': 'wv', 'pts': fin(0), 'data': video_frame(rng, vc, True, 5), 'key': True})
                    if shape in ('vonly', 'av'):
                        calls.append({'op': 'wvd', 'pts': fin(18000), 'dts': fin(9000), 'data': video_frame(rng, vc, False, 7), 'key': False})
                        calls.append({'op': 'wvd', 'pts': fin(9000), 'dts': fin(18000), 'data': video_frame(rng, vc, False, 3), 'key': False})
                    if shape == 'av' and ac != 'none':
                        calls.append({'op': 'wa', 'pts': fin(0), 'data': audio_frame(rng, ac, 6)})
                        calls.append({'op': 'wa', 'pts': fin(6400), 'data': audio_frame(rng, ac, 9)})
                    calls.append({'op': 'fin', 'how': 'in_place_stats'})
                    out.append({'cfg': cfg, 'calls': calls})
    return out


def gen_fraginit(rng, tier):
    """Init segments of all four codecs through the builder: parameter sets of many lengths, dimension classes."""
    out = []
    lens = [1, 3, 4, 5, 16, 255, 256, 1000] if tier == 'quick' else [1, 2, 3, 4, 5, 15, 16, 17, 255, 256, 257, 1000, 4000, 65535]
    dims = [(640, 480), (1, 1), (16, 16), (1920, 1080), (4096, 2160), (65535, 65535)]
    k = 0
    def ps(first, n):
        return [first] + [((i * 7 + k) % 200) + 20 for i in range(n - 1)]
    for vc in ['h264', 'h265', 'av1', 'vp9']:
        for n in lens:
            for via in ('builder', 'config'):
                k += 1
                w, h = dims[k % len(dims)]
                cfg = {'vc': vc, 'w': w, 'h': h, 'timescale': 90000, 'fragms': 2000, 'via': via, 'unit': 1, 'unit1': True,
                       'judge_config': True, 'must_build': True, 'w32': W30, 'i32': W30,
                       'facets': {'bytes': True, 'timing': True, 'tree': True, 'raw': True}}
                if vc == 'h264':
                    cfg['sps'] = ps(0x67, n)
                    cfg['pps'] = ps(0x68, max(1, n // 2))
                elif vc == 'h265':
                    cfg['vps'] = ps(0x40, max(1, n // 3))
                    cfg['sps'] = ps(0x42, n)
                    cfg['pps'] = ps(0x44, max(1, n // 2))
                elif vc == 'av1':
                    if n > 120:
                        continue
                    cfg['av1'] = [0x0a, len(AV1_SEQ)] + AV1_SEQ if n != 3 else [0x0a, 11, 0x20 | 0, 0, 0, 66, 98, 127, 239, 128, 48, 1, 0][:13]
                    cfg['av1'] = [0x0a, len(AV1_SEQ)] + AV1_SEQ
                else:
                    if n > 16:
                        continue
                    cfg['vp9'] = {'width': w, 'height': h, 'profile': k % 4, 'bit_depth': [8, 10][k % 2], 'color_space': k % 8,
                                  'transfer_function': (k // 2) % 8, 'matrix_coefficients': k % 2, 'level': 0, 'full_range_flag': (k // 3) % 2}
                calls = [{'op': 'fi'}, {'op': 'fw', 'pts': 0, 'dts': 0, 'data': pad(rng, 5), 'sync': True},
                         {'op': 'fw', 'pts': 3000, 'dts': 3000, 'data': pad(rng, 2), 'sync': False}, {'op': 'fi'}, {'op': 'ff'}, {'op': 'fi'}]
                out.append({'kind': 'frag', 'cfg': cfg, 'calls': calls})
    # readiness at the fragment-duration boundary: the builder's documented default (2 s) and explicit targets via the config
    for via, fragms in (('builder', 2000), ('config', 2000), ('config', 1), ('config', 100), ('config', 1999), ('config', 2001), ('config', 0)):
        for t0 in (0, 7):
            cfg = {'vc': 'h264', 'w': 640, 'h': 480, 'timescale': 90000, 'fragms': fragms, 'via': via, 'unit': 1, 'unit1': True,
                   'judge_config': True, 'must_build': True, 'w32': W30, 'i32': W30, 'sps': list(SPS_A), 'pps': list(PPS_A),
                   'facets': {'bytes': True, 'timing': True, 'tree': False, 'raw': False}}
            edge = fragms * 90
            calls = [{'op': 'fr'}, {'op': 'fd'}, {'op': 'fw', 'pts': t0, 'dts': t0, 'data': pad(rng, 5), 'sync': True}, {'op': 'fr'}, {'op': 'fd'}]
            for d in sorted({max(1, edge // 2), max(1, edge - 1), max(2, edge), edge + 1, edge + 90}):
                calls += [{'op': 'fw', 'pts': t0 + d, 'dts': t0 + d, 'data': pad(rng, 3), 'sync': False}, {'op': 'fr'}, {'op': 'fd'}]
            calls += [{'op': 'ff'}, {'op': 'fr'}, {'op': 'fd'}]
            out.append({'kind': 'frag', 'cfg': cfg, 'calls': calls})
    # every H.264 profile_idc class (the avcC of the High profiles continues after the parameter sets)
    for prof in (66, 77, 88, 100, 110, 122, 144, 244, 44):
        for via in ('builder', 'config'):
            cfg = {'vc': 'h264', 'w': 640, 'h': 480, 'timescale': 90000, 'fragms': 2000, 'via': via, 'unit': 1, 'unit1': True,
                   'judge_config': True, 'must_build': True, 'w32': W30, 'i32': W30, 'sps': [0x67, prof, 0x00, 0x28, 0xac, 0x2b], 'pps': list(PPS_A),
                   'facets': {'bytes': False, 'timing': False, 'tree': True, 'raw': True}}
            out.append({'kind': 'frag', 'cfg': cfg, 'calls': [{'op': 'fi'}]})
    # field-width boundaries (C16): parameter sets of 65535 / 65536 bytes, dimensions 65535 / 65536
    for vc in ('h264', 'h265'):
        for n in (65535, 65536):
            for via in ('builder', 'config'):
                k += 1
                cfg = {'vc': vc, 'w': 640, 'h': 480, 'timescale': 90000, 'fragms': 2000, 'via': via, 'unit': 1, 'unit1': True,
                       'judge_config': True, 'w32': W30, 'i32': W30,
                       'facets': {'bytes': False, 'timing': False, 'tree': True, 'raw': True}}
                cfg['sps'] = ps(0x67 if vc == 'h264' else 0x42, n)
                cfg['pps'] = ps(0x68 if vc == 'h264' else 0x44, 5)
                if vc == 'h265':
                    cfg['vps'] = ps(0x40, 6)
                out.append({'kind': 'frag', 'cfg': cfg, 'calls': [{'op': 'fi'}]})
    for vc in ('h264', 'h265', 'av1', 'vp9'):
        for (w, h) in ((65535, 65535), (65536, 480), (640, 65536), (67456, 1080), (1920, 66616), (131072, 131072)):
            for via in ('builder', 'config'):
                cfg = {'vc': vc, 'w': w, 'h': h, 'timescale': 90000, 'fragms': 2000, 'via': via, 'unit': 1, 'unit1': True,
                       'judge_config': True, 'w32': W30, 'i32': W30,
                       'facets': {'bytes': False, 'timing': False, 'tree': True, 'raw': True}}
                if vc == 'h264':
                    cfg['sps'] = ps(0x67, 8)
                    cfg['pps'] = ps(0x68, 4)
                elif vc == 'h265':
                    cfg['vps'] = ps(0x40, 4)
                    cfg['sps'] = ps(0x42, 16)
                    cfg['pps'] = ps(0x44, 4)
                elif vc == 'av1':
                    cfg['av1'] = [0x0a, len(AV1_SEQ)] + AV1_SEQ
                else:
                    cfg['vp9'] = {'width': w, 'height': h, 'profile': 0, 'bit_depth': 8, 'color_space': 1, 'transfer_function': 1,
                                  'matrix_coefficients': 1, 'level': 0, 'full_range_flag': 0}
                out.append({'kind': 'frag', 'cfg': cfg, 'calls': [{'op': 'fi'}]})
    # builder without the required parameters must fail
    for vc, missing in [('h264', 'sps'), ('h264', 'pps'), ('h265', 'vps'), ('h265', 'sps'), ('h265', 'pps'), ('av1', 'av1'), ('vp9', 'vp9'), ('h264', 'video')]:
        cfg = {'vc': vc, 'w': 640, 'h': 480, 'timescale': 90000, 'fragms': 2000, 'via': 'builder', 'unit': 1, 'unit1': True,
               'judge_config': False, 'must_build': False, 'w32': W30, 'i32': W30,
               'facets': {'bytes': False, 'timing': False, 'tree': False, 'raw': False}}
        full = {'sps': ps(0x67, 8), 'pps': ps(0x68, 4), 'vps': ps(0x40, 4), 'av1': [0x0a, len(AV1_SEQ)] + AV1_SEQ,
                'vp9': {'width': 640, 'height': 480, 'profile': 0, 'bit_depth': 8, 'color_space': 1, 'transfer_function': 1, 'matrix_coefficients': 1, 'level': 0, 'full_range_flag': 0}}
        need = {'h264': ['sps', 'pps'], 'h265': ['vps', 'sps', 'pps'], 'av1': ['av1'], 'vp9': ['vp9']}[vc]
        for f in need:
            if f != missing:
                cfg[f] = full[f]
        if missing == 'video':
            cfg['novideo'] = True
            cfg['sps'] = full['sps']
            cfg['pps'] = full['pps']
        out.append({'kind': 'frag', 'cfg': cfg, 'calls': []})
    return out


def gen_meta(rng, tier):
    """Titles, creation times, language codes, presence combinations (C18); each run is paired with the
    metadata-free run of the same history by the harness (rel = meta)."""
    out = []
    F = {'bytes': True, 'timing': True, 'tree': True, 'raw': True}
    def inst(meta, vc='h264', ac='aac', frames=True, fast=True):
        cfg = base_cfg(vc, ac, fast=fast)
        cfg['facets'] = F
        cfg['meta'] = meta
        calls = []
        if frames:
            calls.append({'op': 'wv', 'pts': fin(0), 'data': video_frame(rng, vc, True, 4), 'key': True})
            if ac != 'none':
                calls.append({'op': 'wa', 'pts': fin(0), 'data': audio_frame(rng, ac, 5)})
        calls.append({'op': 'fin', 'how': 'in_place_stats'})
        return {'cfg': cfg, 'calls': calls, 'rel': 'meta'}
    # titles
    titles = ['', 'A', 'plain ascii title', 'é', 'ü€', '€uro ☃ snow', '𝄞 clef 🎬', 'x' * 300, 'ÿ' * 150, 'a\x00b', ' ', '"quoted" \\ back']
    for i, t in enumerate(titles):
        out.append(inst({'title': list(t.encode())}, fast=i % 2 == 0, ac=['aac', 'none', 'opus'][i % 3]))
    for n in range(0, 301, 7 if tier == 'quick' else 1):
        out.append(inst({'title': [0x41 + (k % 26) for k in range(n)]}, frames=n % 2 == 0, fast=n % 3 != 0))
    # dates
    days = set()
    years = list(range(1970, 2111)) + list(range(2125, 10000, 25 if tier == 'quick' else 1)) + [2400, 2800, 9999, 4000]
    def dfc(y, m, d):
        import datetime
        return (datetime.date(y, m, d) - datetime.date(1970, 1, 1)).days
    for y in years:
        for (m, d) in [(1, 1), (2, 28), (3, 1), (12, 31)]:
            days.add(dfc(y, m, d))
        leap = (y % 4 == 0 and y % 100 != 0) or y % 400 == 0
        if leap:
            days.add(dfc(y, 2, 29))
    for _ in range(1000 if tier == 'quick' else 20000):
        days.add(rng.randrange(0, 2932897))
    for k, dcount in enumerate(sorted(days)):
        sod = [0, 86399, 43200, rng.randrange(0, 86400)][k % 4]
        m = {'ct_days': dcount, 'ct_sod': sod}
        if k % 5 == 0:
            m['title'] = list(b'dated')
        out.append(inst(m, frames=False, ac='none', fast=k % 2 == 0))
    # languages: all codes (thorough) / a sample plus edges (quick), on a two-track file
    import itertools
    codes = [''.join(c) for c in itertools.product('abcdefghijklmnopqrstuvwxyz', repeat=3)]
    if tier == 'quick':
        codes = ['aaa', 'zzz', 'eng', 'und', 'fra', 'azb', 'zaz'] + rng.sample(codes, 1500)
    for k, c in enumerate(codes):
        m = {'lang': list(c.encode())}
        if k % 7 == 0:
            m['title'] = list(b'L')
        out.append(inst(m, frames=k % 50 == 0, ac='aac' if k % 2 == 0 else 'opus', vc=['h264', 'h265', 'av1', 'vp9'][k % 4]))
    # all 8 presence combinations x layouts x tracks
    for bits in range(8):
        for fast in (True, False):
            for ac in ('none', 'aac'):
                m = {}
                if bits & 1:
                    m['title'] = list('Tïtle'.encode())
                if bits & 2:
                    m['ct_days'] = 19723
                    m['ct_sod'] = 12345
                if bits & 4:
                    m['lang'] = list(b'spa')
                out.append(inst(m, ac=ac, fast=fast))
    # termination on huge creation times and malformed language codes (C12 only; values not judged)
    for raw in [[0x7f] + [0xff] * 7, [0xff] * 8, [0x80] + [0] * 7, [0, 0, 0, 0x3b, 0x9a, 0xca, 0, 0], [0, 0, 0x01, 0, 0, 0, 0, 0]]:
        out.append(inst({'ct_raw': raw}, frames=False, ac='none'))
    for lang in [[], [0x65], [0x65, 0x6e], list(b'ENG'), list(b'engl'), list('ééé'.encode()), [0x7f, 0x7f, 0x7f], list(b'e g'), [0x00, 0x01, 0x02]]:
        out.append(inst({'lang': lang}))
    return out


def gen_metalayout(rng, tier):
    """Metadata of many sizes on files WITH samples, each run in both layouts (rel = layout, C08/C01): the size of
    moov (titles of 0..300 bytes, multi-byte text, dates inside and beyond four-digit years, languages) must not
    disturb the offsets of the fast-start layout."""
    out = []
    F = {'bytes': True, 'timing': True, 'tree': True, 'raw': False}
    metas = [{}]
    for n in ([0, 1, 2, 7, 8, 15, 16, 17, 100, 255, 256, 300] if tier == 'quick' else range(0, 301)):
        metas.append({'title': [0x41 + (k % 26) for k in range(n)]})
    for t in ('é', '€uro ☃ snow', '𝄞 clef 🎬', 'ÿ' * 150):
        metas.append({'title': list(t.encode())})
    for days in (0, 1, 19723, 2932896, 2932897, 2932897 + 366, 3000000, 19675925, 19675926, 36525000, 100000000, 1000000000):
        metas.append({'ct_days': days, 'ct_sod': 86399 if days % 2 else 1})
        metas.append({'ct_days': days, 'ct_sod': 43200, 'title': list(b'dated'), 'lang': list(b'zho')})
    for lang in ('eng', 'zzz', 'und', 'aaa'):
        metas.append({'lang': list(lang.encode())})
    k = 0
    for m in metas:
        for vc, ac in (('h264', 'aac'), ('h265', 'none'), ('av1', 'opus'), ('vp9', 'aac')):
            k += 1
            if tier == 'quick' and (k % 2) and 'ct_days' not in m:
                continue
            cfg = base_cfg(vc, ac)
            cfg['facets'] = F
            cfg['meta'] = m
            calls = [{'op': 'wv', 'pts': fin(0), 'data': video_frame(rng, vc, True, 4), 'key': True}]
            if ac != 'none':
                calls.append({'op': 'wa', 'pts': fin(0), 'data': audio_frame(rng, ac, 5)})
            calls.append({'op': 'wv', 'pts': fin(9000), 'data': video_frame(rng, vc, False, 3), 'key': False})
            if ac != 'none':
                calls.append({'op': 'wa', 'pts': fin(6400), 'data': audio_frame(rng, ac, 7)})
            calls.append({'op': 'fin', 'how': 'in_place_stats'})
            out.append({'cfg': cfg, 'calls': calls})
    # a large sample (>= 64 KiB) that is neither the first nor the last in timestamp order, with audio around it
    for vc, ac in (('h264', 'aac'), ('vp9', 'opus')):
        for big in (65535, 65536, 70000):
            cfg = base_cfg(vc, ac)
            cfg['facets'] = F
            bigframe = video_frame(rng, vc, False, 3)
            bigframe = bigframe + [((i * 31) % 200) + 20 for i in range(big - len(bigframe) - (4 if vc == 'h264' else 0))]
            calls = [{'op': 'wv', 'pts': fin(0), 'data': video_frame(rng, vc, True, 4), 'key': True},
                     {'op': 'wa', 'pts': fin(0), 'data': audio_frame(rng, ac, 5)},
                     {'op': 'wa', 'pts': fin(6400), 'data': audio_frame(rng, ac, 6)},
                     {'op': 'wv', 'pts': fin(9000), 'data': bigframe, 'key': False},
                     {'op': 'wa', 'pts': fin(12800), 'data': audio_frame(rng, ac, 7)},
                     {'op': 'wv', 'pts': fin(18000), 'data': video_frame(rng, vc, False, 3), 'key': False},
                     {'op': 'wa', 'pts': fin(19200), 'data': audio_frame(rng, ac, 4)},
                     {'op': 'fin', 'how': 'in_place_stats'}]
            out.append({'cfg': cfg, 'calls': calls})
    # histories without any sample / with a single sample, every codec, with and without an audio track and metadata
    for vc in ('h264', 'h265', 'av1', 'vp9'):
        for ac in ('none', 'aac', 'opus'):
            for m in ({}, {'title': list(b'empty')}):
                for shape in ('empty', 'one'):
                    cfg = base_cfg(vc, ac)
                    cfg['facets'] = F
                    if m:
                        cfg['meta'] = m
                    calls = [] if shape == 'empty' else [{'op': 'wv', 'pts': fin(0), 'data': video_frame(rng, vc, True, 4), 'key': True}]
                    calls.append({'op': 'fin', 'how': 'in_place_stats'})
                    out.append({'cfg': cfg, 'calls': calls})
    return out


def varuint(rng, length):
    out = []
    for i in range(length):
        last = i == length - 1
        v = rng.randrange(1, 128) if not last else rng.randrange(1, 8)
        out.append(v | (0 if last else 0x80))
    return out


def gen_vp9hdr(rng, tier):
    """All VP9 key-frame headers of the library's accepted form: profiles, var-uint lengths, render size on/off,
    colour byte values, range byte, with/without trailing bytes."""
    out = []
    F = {'bytes': True, 'timing': False, 'tree': False, 'raw': True}
    lens = [(1, 1), (2, 2), (5, 5), (1, 5), (5, 1), (3, 4)]
    colours = range(256) if tier != 'quick' else list(range(0, 256, 5)) + [1, 2, 3, 0x0c, 0x0e, 0xf3, 0xff]
    def frame_lines(frames):
        for i in range(0, len(frames), 1):
            cfg = base_cfg('vp9', 'none', w=640, h=480)
            cfg['facets'] = F
            calls = [{'op': 'wv', 'pts': fin(0), 'data': frames[i], 'key': True},
                     {'op': 'wv', 'pts': fin(9000), 'data': video_frame(rng, 'vp9', False, 3), 'key': False},
                     {'op': 'fin', 'how': 'in_place_stats'}]
            out.append({'cfg': cfg, 'calls': calls})
    frames = []
    k = 0
    for profile in range(4):
        for c in colours:
            for rbyte in (0, 1):
                k += 1
                wl, hl = lens[k % len(lens)]
                head = [0x49, 0x83, 0x42, profile << 6, rng.randrange(0, 256)] + ([rng.randrange(0, 256)] if profile >= 2 else [])
                size = varuint(rng, wl) + varuint(rng, hl)
                tail = pad(rng, k % 4)
                # (a) colour byte followed by a range byte (if its bits 2-3 are set this is the render-size form)
                if c & 0x0c == 0:
                    frames.append(head + size + [c, rbyte] + tail)
                # (b) explicit render size, then colour + range
                if k % 3 == 0:
                    flag = [0x04, 0x08, 0x0c, 0xff][k % 4]
                    frames.append(head + size + [flag] + varuint(rng, (k % 5) + 1) + varuint(rng, ((k // 5) % 5) + 1) + [c, rbyte] + tail)
                # (c) colour byte is the last byte of the frame
                if k % 4 == 0:
                    frames.append(head + size + [c])
                # (d) the frame ends right after the size (defaults)
                if k % 16 == 0 and len(head + size) >= 6:
                    frames.append(head + size)
    frame_lines(frames)
    return out


def gen_nallist(rng, tier):
    """Constructive Annex B grammar: lists of NAL units (parameter sets a/b, slices, SEI, AUD, empty) joined by
    3/4-byte start codes, with leading garbage and trailing zeros, as the first key frame; a later key frame with
    the *other* parameter sets follows (it must not change the stored configuration)."""
    out = []
    F = {'bytes': True, 'timing': False, 'tree': False, 'raw': True}
    import itertools
    units = {
        'h264': {'SPSa': SPS_A, 'SPSb': SPS_B, 'PPSa': PPS_A, 'PPSb': PPS_B, 'IDR': [0x65, 0x88, 0x84], 'P': [0x41, 0x9a, 0x22],
                 'SEI': [0x06, 0x05, 0x11], 'AUD': [0x09, 0x10], 'E': []},
        'h265': {'VPSa': HVPS, 'VPSb': [0x40, 0x01, 0x0c, 0x02, 0x33], 'SPSa': HSPS, 'SPSb': [0x42, 0x01, 0x02, 0x02, 0x20] + HSPS[5:] + [0x99],      # Main 10 (profile_idc 2), main tier: an even profile_idc with the tier bit clear
                 'PPSa': HPPS, 'PPSb': [0x44, 0x01, 0xc1], 'IDR': [0x26, 0x01, 0xaf], 'P': [0x02, 0x01, 0xd0], 'SEI': [0x4e, 0x01, 0x05], 'E': []},
    }
    # truncated / minimal parameter sets (1..6 bytes, and around the HEVC level byte) as the stream's configuration
    for n in (1, 2, 3, 4, 5, 6):
        for m in (1, 2, 4):
            cfg = base_cfg('h264', 'none')
            cfg['facets'] = F
            d = SC4 + ([0x67, 0x42, 0xc0, 0x1e, 0x95, 0xa8][:n]) + SC3 + (PPS_A[:m]) + SC4 + [0x65, 0x88, 0x84]   # no trailing zero: it would join the next start code
            out.append({'cfg': cfg, 'calls': [{'op': 'wv', 'pts': fin(0), 'data': d, 'key': True}, {'op': 'fin', 'how': 'in_place_stats'}]})
    for n in (1, 2, 3, 4, 5, 13, 14, 15, 16, len(HSPS)):
        for m in (1, 2, 3):
            cfg = base_cfg('h265', 'none')
            cfg['facets'] = F
            d = SC4 + HVPS[:max(1, m)] + SC4 + HSPS[:n] + SC3 + HPPS[:m] + SC4 + [0x26, 0x01, 0xaf]
            out.append({'cfg': cfg, 'calls': [{'op': 'wv', 'pts': fin(0), 'data': d, 'key': True}, {'op': 'fin', 'how': 'in_place_stats'}]})
    maxlen = 3 if tier == 'quick' else 4
    for vc in ('h264', 'h265'):
        names = list(units[vc].keys())
        k = 0
        for n in range(1, maxlen + 1):
            for combo in itertools.product(names, repeat=n):
                k += 1
                if tier == 'quick' and n == 3 and k % 3:
                    continue
                pat = k % 2
                lead = [[], [0xab, 0xcd], [0x00]][k % 3]
                trail = [[], [0x00], [0x00, 0x00]][(k // 3) % 3]
                d = list(lead)
                for i, u in enumerate(combo):
                    d += (SC4 if (i + pat) % 2 == 0 else SC3) + units[vc][u]
                d += trail
                cfg = base_cfg(vc, 'none')
                cfg['facets'] = F
                other = video_frame(rng, vc, True, 3) if vc == 'h264' else (SC4 + units[vc]['VPSb'] + SC3 + units[vc]['SPSb'] + SC4 + units[vc]['PPSb'] + SC3 + [0x26, 0x01, 0x55])
                calls = [{'op': 'wv', 'pts': fin(0), 'data': d, 'key': True},
                         {'op': 'wv', 'pts': fin(9000), 'data': other, 'key': True},
                         {'op': 'fin', 'how': 'in_place_stats'}]
                out.append({'cfg': cfg, 'calls': calls})
    # H.265 needs three parameter sets before a key frame is accepted: lists of four / five parameter sets (both
    # variants of each kind, every order) containing all three kinds, i.e. repeated kinds before the triple is
    # complete, then the slice; the FIRST of each kind is the configuration
    psn = ['VPSa', 'VPSb', 'SPSa', 'SPSb', 'PPSa', 'PPSb']
    k = 0
    for n in ((4,) if tier == 'quick' else (4, 5)):
        for combo in itertools.product(psn, repeat=n):
            if {c[0] for c in combo} != {'V', 'S', 'P'}:
                continue
            k += 1
            if n == 5 and k % 4:
                continue
            d = []
            for i, u in enumerate(combo):
                d += (SC4 if (i + k) % 2 == 0 else SC3) + units['h265'][u]
            d += SC3 + units['h265']['IDR']
            cfg = base_cfg('h265', 'none')
            cfg['facets'] = F
            out.append({'cfg': cfg, 'calls': [{'op': 'wv', 'pts': fin(0), 'data': d, 'key': True}, {'op': 'fin', 'how': 'in_place_stats'}]})
    # H.264: the same with two kinds, lists of three / four parameter sets
    psn4 = ['SPSa', 'SPSb', 'PPSa', 'PPSb']
    for n in (3, 4):
        for combo in itertools.product(psn4, repeat=n):
            if {c[0] for c in combo} != {'S', 'P'}:
                continue
            k += 1
            d = []
            for i, u in enumerate(combo):
                d += (SC4 if (i + k) % 2 == 0 else SC3) + units['h264'][u]
            d += SC3 + units['h264']['IDR']
            cfg = base_cfg('h264', 'none')
            cfg['facets'] = F
            out.append({'cfg': cfg, 'calls': [{'op': 'wv', 'pts': fin(0), 'data': d, 'key': True}, {'op': 'fin', 'how': 'in_place_stats'}]})
    return out


def be(v, n=8):
    return [(v >> (8 * (n - 1 - i))) & 0xff for i in range(n)]


def wideint(v):
    return v if v < (1 << 31) else be(v, 8)


F64_BITS = [0x0000000000000000, 0x8000000000000000, 0x0000000000000001, 0x000fffffffffffff, 0x0010000000000000,
            0x7fefffffffffffff, 0x7ff0000000000000, 0xfff0000000000000, 0x7ff8000000000000, 0x7ff0000000000001,
            0xfff8000000000000, 0x3ff0000000000000, 0xbff0000000000000, 0x43e0000000000000, 0x4330000000000000,
            0x40c3880000000000, 0x7e37e43c8800759c, 0x3eb0c6f7a0b5ed8d, 0x433fffffffffffff, 0x4340000000000000]


def rawtok(rng):
    b = rng.choice(F64_BITS) if rng.random() < 0.7 else rng.getrandbits(64)
    return {'k': 'raw', 'bits': be(b)}


def gen_extreme(rng, tier):
    """Argument extremes for every progressive entry point; only totality (no panic / hang) is judged."""
    vc = rng.choice(['h264', 'h265', 'av1', 'vp9'])
    ac = rng.choice(['none', 'aac', 'opus'])
    ext32 = [0, 1, 2, 255, 256, 65535, 65536, 65537, (1 << 31) - 1, 1 << 31, (1 << 32) - 1]
    ext16 = [0, 1, 2, 7, 8, 9, 15, 16, 255, 256, 65535]
    cfg = base_cfg(vc, ac, w=wideint(rng.choice(ext32 + [640])), h=wideint(rng.choice(ext32 + [480])),
                   rate=wideint(rng.choice(ext32 + [48000, 44100, 96000])), ch=rng.choice(ext16))
    cfg['nojudge'] = True
    cfg['fps_bits'] = be(rng.choice(F64_BITS))
    cfg['fast'] = rng.random() < 0.5
    cfg['facets'] = {'bytes': False, 'timing': False, 'tree': False, 'raw': False}
    if rng.random() < 0.5:
        m = {}
        if rng.random() < 0.5:
            m['title'] = list(rng.choice(['', 'x', 'é' * 40000, '\x00', 'a' * 70000]).encode())
        if rng.random() < 0.5:
            m['ct_raw'] = be(rng.choice([0, 1, 86399, 86400, (1 << 31), (1 << 32) - 1, (1 << 32), (1 << 53), (1 << 63) - 1, (1 << 63), (1 << 64) - 1, 253402300799, 253402300800]))
        if rng.random() < 0.5:
            m['lang'] = list(rng.choice([b'', b'e', b'en', b'eng', b'ENG', b'engl', b'\x00\x00\x00', b'\xff\xfe\xfd', 'ééé'.encode(), b'~~~', b'   ']))
        cfg['meta'] = m
    calls = []
    nframes = rng.randrange(0, 6)
    t = 0
    for i in range(nframes):
        r = rng.random()
        good_v = video_frame(rng, vc, i == 0, rng.randrange(1, 20))
        data = rng.choice([good_v, good_v, [], [0], [0, 0, 1], [0, 0, 0, 1], good_v[:rng.randrange(0, len(good_v))], pad(rng, 3),
                           [0x49, 0x83], [0x49, 0x83, 0x42], [0x0a], [0x0a, 0xff, 0xff, 0xff, 0xff, 0xff, 0xff, 0xff, 0xff, 0x7f]])
        tok = rawtok(rng) if r < 0.35 else rng.choice([fin(t), fin(t), {'k': 'huge'}, {'k': 'nan'}, {'k': 'negzero'}, fin(0), fin((1 << 31) - 2)])
        op = rng.choice(['wv', 'wvd', 'ev', 'wa', 'ea'])
        if op == 'wv':
            calls.append({'op': 'wv', 'pts': tok, 'data': data, 'key': rng.random() < 0.7})
        elif op == 'wvd':
            calls.append({'op': 'wvd', 'pts': tok, 'dts': rawtok(rng) if rng.random() < 0.3 else rng.choice([fin(t), {'k': 'huge'}, fin(0)]), 'data': data, 'key': rng.random() < 0.7})
        elif op == 'ev':
            calls.append({'op': 'ev', 'data': data, 'ms': wideint(rng.choice([0, 1, 33, 1000, (1 << 31) - 1, (1 << 32) - 1]))})
        elif op == 'wa':
            a = audio_frame(rng, ac if ac != 'none' else 'aac', rng.randrange(1, 10))
            calls.append({'op': 'wa', 'pts': tok, 'data': rng.choice([a, a, [], a[:rng.randrange(0, len(a))], [0xff, 0xf1], [0xfc], [0xff], [3], [3, 0], [3, 0x80]])})
        else:
            a = audio_frame(rng, ac if ac != 'none' else 'opus', rng.randrange(1, 10))
            calls.append({'op': 'ea', 'data': rng.choice([a, [], a[:3]]), 'n': wideint(rng.choice([0, 1, 960, 1024, (1 << 31) - 1, (1 << 32) - 1]))})
        t += rng.choice([1, 3, 9000, 1 << 20])
    calls.append({'op': 'fin', 'how': rng.choice(['in_place_stats', 'in_place', 'finish', 'finish_with_stats', 'flush'])})
    if rng.random() < 0.5:
        calls.append({'op': 'wv', 'pts': rawtok(rng), 'data': [1], 'key': True})
        calls.append({'op': 'fin', 'how': 'in_place_stats'})
    return {'cfg': cfg, 'calls': calls}


def gen_extremefrag(rng, tier):
    vc = rng.choice(['h264', 'h265', 'av1', 'vp9'])
    ext32 = [0, 1, 2, 1000, 65535, 65536, 90000, (1 << 31) - 1, 1 << 31, (1 << 32) - 1]
    cfg = {'vc': vc, 'w': wideint(rng.choice(ext32)), 'h': wideint(rng.choice(ext32)), 'timescale': wideint(rng.choice(ext32)),
           'fragms': wideint(rng.choice(ext32)), 'via': rng.choice(['config', 'config', 'builder']), 'unit': 1, 'unit1': False,
           'judge_config': False, 'nojudge': True, 'w32': W30, 'i32': W30,
           'facets': {'bytes': False, 'timing': False, 'tree': False, 'raw': False}}
    lens = [0, 1, 2, 3, 4, 14, 15, 16, 300, 65535, 65536, 70000]
    if vc in ('h264', 'h265') or rng.random() < 0.3:
        cfg['sps'] = [0x67] * rng.choice(lens)
        cfg['pps'] = [0x68] * rng.choice(lens)
    if vc == 'h265' or rng.random() < 0.2:
        cfg['vps'] = [0x40] * rng.choice(lens)
    if vc == 'av1' or rng.random() < 0.2:
        base = [0x0a, len(AV1_SEQ)] + AV1_SEQ
        cfg['av1'] = rng.choice([base, [], [0x0a], base[:rng.randrange(0, len(base))], [0x0a, 0xff, 0xff, 0xff, 0xff, 0xff, 0xff, 0xff, 0x7f], [0x0a, 1, 0xe0], [0x0a, 1, 0x80]])
    if vc == 'vp9' or rng.random() < 0.2:
        cfg['vp9'] = {'width': 640, 'height': 480, 'profile': rng.choice([0, 1, 2, 3, 4, 255]), 'bit_depth': rng.choice([0, 8, 10, 12, 255]),
                      'color_space': rng.choice([0, 7, 255]), 'transfer_function': rng.choice([0, 255]), 'matrix_coefficients': rng.choice([0, 255]),
                      'level': rng.choice([0, 255]), 'full_range_flag': rng.choice([0, 1, 255])}
    big = [0, 1, (1 << 32) - 1, 1 << 32, (1 << 63) - 1, 1 << 63, (1 << 64) - 3001, (1 << 64) - 2, (1 << 64) - 1]
    calls = []
    for i in range(rng.randrange(0, 7)):
        r = rng.random()
        if r < 0.15:
            calls.append({'op': 'ff'})
        elif r < 0.25:
            calls.append({'op': 'fr'})
        elif r < 0.35:
            calls.append({'op': 'fd'})
        elif r < 0.4:
            calls.append({'op': 'fi'})
        d = rng.choice(big)
        p = rng.choice(big)
        calls.append({'op': 'fw', 'pts': 0, 'dts': 0, 'pts_add': be(p), 'dts_add': be(d), 'data': pad(rng, rng.choice([0, 1, 5])), 'sync': rng.random() < 0.5})
    calls += [{'op': 'fr'}, {'op': 'fd'}, {'op': 'ff'}, {'op': 'fi'}, {'op': 'ff'}]
    return {'kind': 'frag', 'cfg': cfg, 'calls': calls}


def header_mutations(rng, tier):
    """Every prefix and every single-bit flip of generated AV1 / VP9 / ADTS / Opus / Annex B headers."""
    seeds = []
    for vc in ('h264', 'h265', 'av1', 'vp9'):
        seeds.append(video_frame(rng, vc, True, 4))
        seeds.append(video_frame(rng, vc, False, 3))
    seeds.append([0x0a, len(AV1_SEQ)] + AV1_SEQ)
    seeds.append(adts(rng, 4))
    seeds.append(adts(rng, 3, crc=True))
    seeds += [[0x78, 1, 2], [0x7b, 0x02, 1, 2], [0x03, 0x80 | 5, 9, 9]]
    out = []
    # length-field extremes: leb128 sizes of 1..11 groups (values up to and beyond 2^64) after every OBU header form,
    # VP9 var-uints of 1..6 groups, Opus code-3 counts, with and without bytes following
    for hdr in ([0x0a], [0x12], [0x32], [0x0e, 0x00], [0x2a]):
        for k in range(0, 11):
            for fill in (0xff, 0x80):
                for last in (0x00, 0x01, 0x7f):
                    for tail in ([], [0x00], AV1_SEQ[:4]):
                        out.append(hdr + [fill] * k + [last] + tail)
    for k in range(0, 7):
        for last in (0x01, 0x7f):
            out.append([0x49, 0x83, 0x42, 0x00, 0x00] + [0xff] * k + [last] + [0x81] * k + [last, 0x00, 0x00])
    # every NAL unit type of both codecs as the only / the second unit of an access unit (key-frame detection is by type)
    for t in range(64):
        out.append(SC3 + [t << 1, 0x01, 0xaf, 0x11])
        out.append(SC4 + [0x02, 0x01, 0xd0] + SC3 + [t << 1, 0x01, 0xaf])
        out.append(SC4 + [(t << 1) | 0x81, 0x01, 0xaf])            # forbidden bit / layer id bit set
    for t in range(32):
        out.append(SC3 + [0x60 | t, 0x88, 0x84])
        out.append(SC4 + [0x41, 0x9a] + SC3 + [0x20 | t, 0x88])
        out.append(SC4 + [0x80 | t, 0x88])
    for cnt in (0x00, 0x01, 0x3f, 0x40, 0x7f, 0x80, 0xbf, 0xc1, 0xff):
        out.append([0x03, cnt])
        out.append([0xff, cnt, 0xff, 0xff, 0xfe, 1, 2, 3])
    for sd in seeds:
        for n in range(len(sd) + 1):
            out.append(sd[:n])
        step = 1 if tier != 'quick' else 3
        for bit in range(0, 8 * len(sd), step):
            m = list(sd)
            m[bit // 8] ^= 1 << (7 - bit % 8)
            out.append(m)
    return out


def gen_mutframes(rng, tier):
    """The mutated headers as frame data of every entry point (first frame and later frame)."""
    out = []
    muts = header_mutations(rng, tier)
    per = 12
    for vc in ('h264', 'h265', 'av1', 'vp9'):
        for ac in ('aac', 'opus'):
            for i in range(0, len(muts), per):
                if tier == 'quick' and (i // per) % 3:
                    continue
                cfg = base_cfg(vc, ac)
                cfg['nojudge'] = True
                cfg['facets'] = {'bytes': False, 'timing': False, 'tree': False, 'raw': False}
                calls = []
                t = 0
                for j, m in enumerate(muts[i:i + per]):
                    calls.append({'op': ['wv', 'ev', 'wvd'][j % 3], 'pts': fin(t), 'dts': fin(t), 'data': m, 'key': j % 2 == 0, 'ms': 33})
                    calls.append({'op': ['wa', 'ea'][j % 2], 'pts': fin(t), 'data': m, 'n': 960})
                    if j == 5:
                        calls.append({'op': 'wv', 'pts': fin(t + 1), 'data': video_frame(rng, vc, True, 3), 'key': True})
                    t += 9000
                calls.append({'op': 'fin', 'how': 'in_place_stats'})
                out.append({'cfg': cfg, 'calls': calls})
    return out


UNITS = [
    # (unit, w32 = floor((2^32-1)/U), i32 = floor((2^31-1)/U), i32n = floor(2^31/U))
    (1 << 30, 3, 1, 2),
    ((1 << 31) - 1, 2, 1, 1),
    ((1 << 32) - 1, 1, 0, 0),
    (1 << 32, 0, 0, 0),
    (1 << 31, 1, 0, 1),
]


def gen_bound(rng, tier):
    """Boundary instances (numeric embedding): all timestamps are multiples of a unit U chosen so that small
    multiples land just below / on / above the 32-bit field limits (sample delta, total duration, composition offset)."""
    out = []
    dts_patterns = [[0, 1], [0, 1, 2], [0, 2], [0, 3], [0, 4], [0, 1, 2, 3], [0, 1, 2, 3, 4], [0, 2, 4], [1, 2], [3, 4, 5], [0, 5], [0, 1, 5], [0, 5, 6], [0, 4, 5], [0, 1, 6, 7]]
    cts_patterns = [[0], [1], [2], [-1], [-2], [3], [1, 0], [0, 2], [2, 1, 0]]
    for (U, w32, i32, i32n) in UNITS:
        for vc in (['h264', 'vp9'] if tier == 'quick' else ['h264', 'h265', 'av1', 'vp9']):
            for ac in ('none', 'aac'):
                for dp in dts_patterns:
                    for cp in cts_patterns:
                        if tier == 'quick' and (len(out) % 2):
                            out.append(None)
                            continue
                        cfg = base_cfg(vc, ac, mode='tick', unit=wideint(U) if U >= (1 << 31) else U, w32=w32, i32=i32, i32n=i32n, w32dur=w32)
                        cfg['facets'] = {'bytes': True, 'timing': True, 'tree': True, 'raw': True}
                        calls = []
                        ok = True
                        for k, d in enumerate(dp):
                            c = cp[k % len(cp)]
                            if d + c < 0:
                                c = 0
                            data = video_frame(rng, vc, k == 0, 3 + k)
                            if c == 0 and k % 2 == 0:
                                calls.append({'op': 'wv', 'pts': fin(d), 'data': data, 'key': k == 0})
                            else:
                                calls.append({'op': 'wvd', 'pts': fin(d + c), 'dts': fin(d), 'data': data, 'key': k == 0})
                            if ac != 'none' and k < 3:
                                calls.append({'op': 'wa', 'pts': fin(max(d, dp[0] + (cp[0] if dp[0] + cp[0] >= 0 else 0))), 'data': audio_frame(rng, ac, 4)})
                        calls.append({'op': 'fin', 'how': 'in_place_stats'})
                        out.append({'cfg': cfg, 'calls': calls})
    return [o for o in out if o is not None]


def gen_boundfrag(rng, tier):
    out = []
    dts_patterns = [[0, 1], [0, 1, 2], [0, 3], [0, 4], [0, 1, 5], [2, 2, 3], [0, 5, 6]]
    cts_patterns = [[0], [1], [2], [-1], [-2], [3]]
    for (U, w32, i32, i32n) in UNITS:
        for dp in dts_patterns:
            for cp in cts_patterns:
                cfg = {'vc': 'h264', 'w': 640, 'h': 480, 'timescale': 90000, 'fragms': 2000, 'via': 'config', 'unit': wideint(U) if U >= (1 << 31) else U,
                       'unit1': False, 'judge_config': False, 'w32': w32, 'i32': i32, 'i32n': i32n, 'sps': SPS_A, 'pps': PPS_A,
                       'facets': {'bytes': True, 'timing': True, 'tree': True, 'raw': True}}
                calls = []
                for k, d in enumerate(dp):
                    c = cp[k % len(cp)]
                    if d + c < 0:
                        c = 0
                    calls.append({'op': 'fw', 'pts': d + c, 'dts': d, 'data': pad(rng, 3 + k), 'sync': k == 0})
                    if k == 1:
                        calls.append({'op': 'ff'})
                calls.append({'op': 'ff'})
                out.append({'kind': 'frag', 'cfg': cfg, 'calls': calls})
    return out


def gen_cli(rng, tier):
    """Option records for the muxide binary: a valid baseline, every option varied on its own,
    seeded random combinations; validate and info runs."""
    out = []
    def vfile(vc, enc='hex', kind='key'):
        if enc == 'absent':
            return {'enc': 'absent', 'data': []}
        d = {'key': video_frame(rng, vc, True, 5), 'delta': video_frame(rng, vc, False, 4), 'garbage': pad(rng, 6), 'none': []}[kind]
        return {'enc': enc, 'data': d}
    def afile(ac, enc='hex', kind='good'):
        if enc == 'absent':
            return {'enc': 'absent', 'data': []}
        d = {'good': audio_frame(rng, ac, 6), 'garbage': pad(rng, 5), 'none': []}[kind]
        return {'enc': enc, 'data': d}
    VN = {'': 'h264', 'h264': 'h264', 'H264': 'h264', 'h.264': 'h264', 'avc': 'h264', 'AVC': 'h264', 'h265': 'h265', 'H.265': 'h265', 'hevc': 'h265',
          'av1': 'av1', 'AV1': 'av1', 'vp9': 'vp9', 'Vp9': 'vp9', 'mpeg2': None, 'h266': None}
    AN = {'': 'aac', 'aac': 'aac', 'AAC': 'aac', 'aac-lc': 'aac', 'aac-main': 'aac', 'aac-ssr': 'aac', 'aac-ltp': 'aac', 'aac-he': 'aac', 'aac-hev2': 'aac',
          'opus': 'opus', 'Opus': 'opus', 'none': 'none', 'mp3': None}
    def base():
        return {'vcodec_as_given': 'h264', 'has_w': True, 'w': 640, 'has_h': True, 'h': 480, 'has_fps': True, 'fps_text': '30', 'fps_milli': 30000,
                'acodec_as_given': '', 'has_rate': False, 'rate': 48000, 'has_ch': False, 'ch': 2, 'json': False, 'verbose': False, 'no_progress': True,
                'dry_run': False, 'fragmented': False, 'venc': 'hex', 'vkind': 'key', 'aenc': 'absent', 'akind': 'good'}
    def finish(o):
        vn = o['vcodec_as_given']
        an = o['acodec_as_given']
        o['vcodec'] = vn.lower()
        o['acodec'] = an.lower()
        vc = VN.get(vn) or 'h264'
        ac = AN.get(an) or 'aac'
        if ac == 'none':
            ac = 'aac'
        o['video'] = vfile(vc, o.pop('venc'), o.pop('vkind'))
        o['audio'] = afile(ac, o.pop('aenc'), o.pop('akind'))
        return {'kind': 'cli', 'cmd': 'mux', 'opts': o}
    def withaudio(o):
        o.update({'aenc': 'hex', 'has_rate': True, 'has_ch': True})
        return o
    def text_variants(d):
        """Literal file contents derived from the hexadecimal text of d: (text bytes, …); whether each is
        hexadecimal text is decided by the specification (TraceCli.HexText), not here."""
        h = ''.join('%02x' % b for b in d)
        vs = [h, h.upper(), h + '\n', h + '\r\n', '  ' + h + '\t\n', ' '.join(h[i:i + 2] for i in range(0, len(h), 2)),
              h[0] + ' ' + h[1:], '\n'.join(h[i:i + 16] for i in range(0, len(h), 16)),
              '+' + h[1:], '-' + h[1:], h[0] + '+' + h[2:], h[:2] + '+' + h[3:], h[:-2] + '+' + h[-1], '0x' + h, '0X' + h, h + 'g0', 'g' + h[1:],
              h[:-1], h + '0', h[:4] + '_' + h[5:], h[:6] + '  +' + h[7:], '+', '++', '+0', '-0', ' ', 'zz', h[:-1] + '.', '#' + h[1:]]
        return [list(v.encode()) for v in vs]
    # baseline and one-at-a-time variations
    singles = []
    for vn in VN:
        singles.append({'vcodec_as_given': vn})
    for (w, h) in [(320, 240), (4096, 2160), (319, 240), (320, 239), (4097, 2160), (4096, 2161), (0, 0), (1920, 1080), (65536, 480)]:
        singles.append({'w': w, 'h': h})
    singles += [{'has_w': False}, {'has_h': False}, {'has_fps': False}]
    for (t, m) in [('29.97', 29970), ('120', 120000), ('120.001', 120001), ('0', 0), ('0.001', 1), ('1', 1000), ('60', 60000), ('121', 121000),
                   ('NaN', 0), ('nan', 0), ('-NaN', 0), ('inf', 10 ** 9), ('-inf', 0), ('-1', 0), ('-0', 0), ('1e9', 10 ** 9)]:      # (values between 0 and 0.001 are valid rates but not expressible in thousandths: not generated)
        singles.append({'fps_text': t, 'fps_milli': m})
    for enc in ['odd', 'nonhex', 'empty', 'binary', 'missing', 'absent']:
        singles.append({'venc': enc})
    for kind in ['delta', 'garbage']:
        singles.append({'vkind': kind})
    singles += [{'json': True}, {'verbose': True}, {'no_progress': False}, {'dry_run': True}, {'fragmented': True},
                {'title': list(b'My Title')}, {'title': list('Tïtlé ☃'.encode())}, {'language': list(b'eng')}, {'language': list(b'fra'), 'title': list(b'x')}]
    for s1 in singles:
        o = base()
        o.update(s1)
        out.append(finish(o))
    asingles = []
    for an in AN:
        asingles.append({'acodec_as_given': an})
    for r in [8000, 44100, 48000, 192000, 192001, 0, 1]:
        asingles.append({'rate': r})
    for c in [1, 2, 6, 8, 0, 9, 255]:
        asingles.append({'ch': c})
    asingles += [{'has_rate': False}, {'has_ch': False}]
    for enc in ['odd', 'nonhex', 'empty', 'binary', 'missing']:
        asingles.append({'aenc': enc})
    asingles += [{'akind': 'garbage'}, {'json': True}, {'venc': 'absent'}, {'vcodec_as_given': 'hevc'}, {'vcodec_as_given': 'vp9', 'acodec_as_given': 'opus'},
                 {'vcodec_as_given': 'av1', 'acodec_as_given': 'aac-he'}, {'dry_run': True, 'aenc': 'missing'}, {'dry_run': True}]
    for s1 in asingles:
        o = withaudio(base())
        o.update(s1)
        out.append(finish(o))
    # literal input-file contents: blanks, case, signs, prefixes, stray characters
    kf = video_frame(rng, 'h264', True, 5)
    for t in text_variants(kf):
        o = finish(base())
        o['opts']['video'] = {'enc': 'text', 'data': kf, 'text': t}
        out.append(o)
    af = audio_frame(rng, 'aac', 6)
    for t in text_variants(af):
        o = finish(withaudio(base()))
        o['opts']['audio'] = {'enc': 'text', 'data': af, 'text': t}
        out.append(o)
    for t in text_variants(kf):
        for js in (False, True):
            out.append({'kind': 'cli', 'cmd': 'validate', 'opts': {'video': {'enc': 'text', 'data': kf, 'text': t}, 'audio': {'enc': 'absent', 'data': []}, 'json': js}})
            out.append({'kind': 'cli', 'cmd': 'validate', 'opts': {'video': {'enc': 'hex', 'data': kf}, 'audio': {'enc': 'text', 'data': af, 'text': t}, 'json': js}})
    # seeded random combinations
    for _ in range(60 if tier == 'quick' else 1500):
        o = base()
        if rng.random() < 0.6:
            withaudio(o)
        for s1 in rng.sample(singles + asingles, rng.choice([1, 2, 2, 3])):
            o.update(s1)
        out.append(finish(o))
    # info: files produced by the library (well-formed) and damaged / arbitrary files (termination only)
    lay = gen_layout(rng, 'quick')
    picks = rng.sample(lay, 40 if tier == 'quick' else len(lay))
    for k, o in enumerate(picks):
        o['cfg']['facets'] = {'bytes': False, 'timing': False, 'tree': False, 'raw': False}
        if o['cfg'].get('w', 0) > 65535 or o['cfg'].get('h', 0) > 65535:
            continue
        out.append({'kind': 'cli', 'cmd': 'info', 'from': {'cfg': o['cfg'], 'calls': o['calls']}, 'mutate': 'none', 'wellformed': True,
                    'opts': {'json': True}})
        for m in (['truncate', 'flip', 'zero_size', 'append'] if k % 4 == 0 or tier != 'quick' else []):
            for rep in range(3 if tier == 'quick' else 30):
                out.append({'kind': 'cli', 'cmd': 'info', 'from': {'cfg': o['cfg'], 'calls': o['calls']}, 'mutate': m,
                            'mutate_at': rng.randrange(0, 100000), 'wellformed': False, 'opts': {'json': rep % 2 == 0}})
    for n in [0, 1, 7, 8, 9, 16, 100, 1000]:
        for rep in range(2 if tier == 'quick' else 20):
            out.append({'kind': 'cli', 'cmd': 'info', 'file': [rng.randrange(0, 256) for _ in range(n)], 'wellformed': False, 'opts': {'json': True}})
    out.append({'kind': 'cli', 'cmd': 'info', 'file': [0, 0, 0, 0, 0x66, 0x74, 0x79, 0x70] * 4, 'wellformed': False, 'opts': {'json': True}})
    out.append({'kind': 'cli', 'cmd': 'info', 'file': [0, 0, 0, 1, 0x66, 0x74, 0x79, 0x70] * 40, 'wellformed': False, 'opts': {'json': True}})
    out.append({'kind': 'cli', 'cmd': 'info', 'file': [0xff, 0xff, 0xff, 0xff, 0x66, 0x74, 0x79, 0x70] * 4, 'wellformed': False, 'opts': {'json': True}})
    # 64-bit "largesize" headers (size field 1): largesize 0, 8, 16, 24, huge; followed by more data
    for large in ([0] * 8, [0] * 7 + [8], [0] * 7 + [16], [0] * 7 + [24], [0x7f] + [0xff] * 7, [0xff] * 8):
        for tail in ([], [0, 0, 0, 8, 0x66, 0x72, 0x65, 0x65], [0] * 16):
            out.append({'kind': 'cli', 'cmd': 'info', 'file': [0, 0, 0, 1, 0x6d, 0x64, 0x61, 0x74] + large + tail, 'wellformed': False, 'opts': {'json': True}})
            out.append({'kind': 'cli', 'cmd': 'info', 'file': [0, 0, 0, 16, 0x66, 0x74, 0x79, 0x70, 0x69, 0x73, 0x6f, 0x6d, 0, 0, 0, 0, 0, 0, 0, 1, 0x6d, 0x6f, 0x6f, 0x76] + large + tail,
                        'wellformed': False, 'opts': {'json': True}})
    # validate
    encs = ['hex', 'odd', 'nonhex', 'empty', 'binary', 'missing', 'absent']
    for ve in encs:
        for ae in encs:
            for js in (False, True):
                if ve == 'absent' and ae == 'absent':
                    continue
                out.append({'kind': 'cli', 'cmd': 'validate', 'opts': {'video': vfile('h264', ve, 'garbage' if ve != 'absent' else 'none'),
                                                                        'audio': afile('aac', ae, 'garbage' if ae != 'absent' else 'none'), 'json': js}})
    return out


def gen_mux_big(rng, tier):
    """Larger A/V files (40-80 samples per track, tiny frames) with many equal timestamps across the
    two tracks and every caller alternation pattern: the interleave order at scale (C15, C01)."""
    vc = rng.choice(['h264', 'h265', 'av1', 'vp9'])
    ac = rng.choice(['aac', 'opus'])
    cfg = base_cfg(vc, ac)
    nv = rng.randrange(35, 70 if tier == 'quick' else 200)
    na = rng.randrange(35, 90 if tier == 'quick' else 300)
    vstep = rng.choice([9000, 9000, 9009])
    vt = [k * vstep for k in range(nv)]
    astep = rng.choice([vstep, vstep // 2, 6000, 2 * vstep // 3, 6269, 6271])
    at = [min(k * astep, vt[-1] + vstep) for k in range(na)]
    if rng.random() < 0.5:
        at = sorted(rng.choice(vt) for _ in range(na))        # audio exactly on video timestamps
    vcalls = [{'op': 'wv', 'pts': fin(t), 'data': video_frame(rng, vc, k == 0, rng.randrange(1, 6)), 'key': k == 0} for k, t in enumerate(vt)]
    acalls = [{'op': 'wa', 'pts': fin(t), 'data': audio_frame(rng, ac, rng.randrange(1, 6))} for t in at]
    mode = rng.choice(['time', 'time_afirst', 'time_afirst', 'vfirst', 'afirst', 'burst'])
    calls = [vcalls[0]]
    vi, ai = 1, 0
    while vi < nv or ai < na:
        if vi >= nv:
            pick = 'a'
        elif ai >= na:
            pick = 'v'
        elif mode == 'vfirst':
            pick = 'v'
        elif mode == 'afirst':
            pick = 'a'
        elif mode == 'time':
            pick = 'v' if vt[vi] <= at[ai] else 'a'
        elif mode == 'time_afirst':       # a caller that merges by time but hands over the audio first on equal timestamps
            pick = 'v' if vt[vi] < at[ai] else 'a'
        else:
            pick = rng.choice(['v', 'v', 'v', 'a', 'a', 'a', 'a'])
        if pick == 'v':
            calls.append(vcalls[vi])
            vi += 1
        else:
            calls.append(acalls[ai])
            ai += 1
    calls.append({'op': 'fin', 'how': 'in_place_stats'})
    return {'cfg': cfg, 'calls': calls}


def generate(kind, n, seed, tier):
    rng = random.Random((seed * 1000003) ^ hash(kind) & 0xffff if False else seed * 1000003 + sum(map(ord, kind)))
    out = []
    if kind in ('sink_calls', 'sink_bytes'):
        hs = gen_sink_histories(rng, tier, kind.split('_')[1])
        for h in hs:
            h['seed'] = seed
            h['nrand'] = 20 if tier == 'quick' else 200
        return hs
    if kind == 'adts':
        return gen_adts(rng, tier)
    if kind == 'layout':
        return gen_layout(rng, tier)
    if kind == 'widths':
        return gen_widths(rng, tier)
    if kind == 'fraginit':
        return gen_fraginit(rng, tier)
    if kind == 'fragreject':
        return gen_fragreject(rng, tier)
    if kind == 'keydetect':
        return gen_keydetect(rng, tier)
    if kind == 'ties':
        return gen_ties(rng, tier)
    if kind == 'meta':
        return gen_meta(rng, tier)
    if kind == 'metalayout':
        return gen_metalayout(rng, tier)
    if kind == 'vp9hdr':
        return gen_vp9hdr(rng, tier)
    if kind == 'nallist':
        return gen_nallist(rng, tier)
    if kind == 'cli':
        return gen_cli(rng, tier)
    if kind == 'bound':
        return gen_bound(rng, tier)
    if kind == 'boundfrag':
        return gen_boundfrag(rng, tier)
    if kind == 'mutbytes':
        return header_mutations(rng, tier)
    if kind == 'mutframes':
        return gen_mutframes(rng, tier)
    for _ in range(n):
        if kind == 'extreme':
            out.append(gen_extreme(rng, tier))
            continue
        if kind == 'extremefrag':
            out.append(gen_extremefrag(rng, tier))
            continue
        if kind == 'mux':
            out.append(gen_mux(rng, tier))
        elif kind == 'frag':
            out.append(gen_frag(rng, tier))
        elif kind == 'mux_big':
            out.append(gen_mux_big(rng, tier))
        elif kind == 'mux_long':
            out.append(gen_mux(rng, tier, long_run=True))
        else:
            raise ValueError(kind)
    return out
