"""Demonstrates that the trace specifications are bound to what was recorded: one recorded field
per event kind is corrupted (a sample byte, a duration, an outcome, a statistic, a tfdt, a
sequence number, a converted byte string) or one event is dropped, and the corresponding
signature must appear; the untouched trace must stay silent.  Not a registered check."""
import os, json, shutil, glob, copy

from . import core, corpora, gen


def _trace(ctx, module, events, d):
    os.makedirs(d, exist_ok=True)
    p = os.path.join(d, 'shard_0.ndjson')
    with open(p, 'w') as f:
        for e in events:
            f.write(json.dumps(e) + '\n')
    sigs, consumed, errors = core.run_trace_shards(ctx, module, [p], os.path.join(d, 'tv'), parallel=1)
    return {'/'.join(s['sig']) for s in sigs}, consumed, errors


def _record(ctx, lines, d, cmd='replay'):
    os.makedirs(d, exist_ok=True)
    inp = os.path.join(d, 'in.ndjson')
    with open(inp, 'w') as f:
        for o in lines:
            f.write(json.dumps(o) + '\n')
    core.run_harness(ctx, [cmd, '--in', inp, '--out', os.path.join(d, 'out'), '--shards', '1'])
    return [json.loads(l) for l in open(os.path.join(d, 'out', 'shard_0.ndjson'))]


def run(ctx, args):
    core.build_harness(ctx)
    base = os.path.join(ctx.work, 'selftest')
    shutil.rmtree(base, ignore_errors=True)
    os.makedirs(base)
    import random
    rng = random.Random(7)
    results = []

    # ---- progressive muxer trace -----------------------------------------------------------
    cfg = gen.base_cfg('h264', 'aac')
    calls = [{'op': 'wv', 'pts': gen.fin(0), 'data': gen.video_frame(rng, 'h264', True, 5), 'key': True},
             {'op': 'wa', 'pts': gen.fin(0), 'data': gen.audio_frame(rng, 'aac', 6)},
             {'op': 'wv', 'pts': gen.fin(9000), 'data': gen.video_frame(rng, 'h264', False, 7), 'key': False},
             {'op': 'wa', 'pts': gen.fin(6400), 'data': gen.audio_frame(rng, 'aac', 4)},
             {'op': 'wv', 'pts': gen.fin(18000), 'data': gen.video_frame(rng, 'h264', False, 3), 'key': False},
             {'op': 'fin', 'how': 'in_place_stats'}]
    cfg['facets'] = {'bytes': True, 'timing': True, 'tree': True, 'raw': True}
    evs = _record(ctx, [{'cfg': cfg, 'calls': calls}], os.path.join(base, 'mux'))
    clean, consumed, errors = _trace(ctx, 'TraceMuxide', evs, os.path.join(base, 'mux_clean'))
    clean_new = {s for s in clean if not s.startswith('C19/') and not s.startswith('C09/')}
    results.append(('untouched progressive trace is silent (apart from known findings)', not clean_new and not errors, sorted(clean_new)))
    fin_idx = max(i for i, e in enumerate(evs) if e['ev'] == 'fin')

    def mutated(fn):
        e2 = copy.deepcopy(evs)
        fn(e2)
        return e2

    def expect(name, mod, events, want_prefix, d):
        sigs, consumed, errors = _trace(ctx, mod, events, os.path.join(base, d))
        ok = any(s.startswith(want_prefix) for s in sigs) and not errors
        results.append((name, ok, sorted(s for s in sigs if not s.startswith('C19/'))[:6] + errors[:1]))

    def m1(e):
        e[fin_idx]['obs']['tracks'][0]['s'][1]['b'][-1] ^= 1
    expect('flipped bit in a resolved sample -> C01/SampleBytes', 'TraceMuxide', mutated(m1), 'C01/SampleBytes/video', 'm1')

    def m2(e):
        e[fin_idx]['obs']['tracks'][0]['s'][0]['d'] += 1
    expect('stts duration +1 -> C03/Duration', 'TraceMuxide', mutated(m2), 'C03/Duration/video', 'm2')

    def m3(e):
        e[3]['ok'] = False
        e[3]['var'] = 'InvalidAdts'
    expect('accepted write recorded as rejected -> C04/Legal', 'TraceMuxide', mutated(m3), 'C04/Legal', 'm3')

    def m4(e):
        e[fin_idx]['stats']['bytes'] += 1
    expect('stats.bytes +1 -> C06/StatsBytes', 'TraceMuxide', mutated(m4), 'C06/StatsBytes', 'm4')

    def m5(e):
        del e[2]
    expect('dropped write event (removed hook) -> C01/SampleCount', 'TraceMuxide', mutated(m5), 'C01/SampleCount', 'm5')

    def m6(e):
        e[fin_idx]['obs']['tracks'][1]['s'][1]['o'] -= 1
    expect('audio offset -1 -> C01/MdatTiling', 'TraceMuxide', mutated(m6), 'C01/MdatTiling', 'm6')

    def m7(e):
        for r in e[fin_idx]['obs']['raw']:
            if r['p'] == 'moov.mvhd':
                r['b'][15] = 1          # timescale 1000 -> 1001 in the low byte
    expect('mvhd timescale byte changed -> C19/BoxLayout/progressive/mvhd', 'TraceMuxide', mutated(m7), 'C19/BoxLayout/progressive/mvhd', 'm7')

    def m8(e):
        e[fin_idx]['obs']['tree'][1]['sz'] += 1
    expect('declared box size +1 -> C02/Tiling', 'TraceMuxide', mutated(m8), 'C02/Tiling', 'm8')

    def m9(e):
        e[1]['sa'] = e[1]['sb'] + 4
    expect('sink bytes before finish -> C06/NothingBeforeFinish', 'TraceMuxide', mutated(m9), 'C06/NothingBeforeFinish', 'm9')

    # ---- fragmented muxer trace ------------------------------------------------------------
    fl = gen.gen_frag(random.Random(3), 'quick')
    fl['cfg']['vc'] = 'h264'
    fl['cfg']['sps'] = gen.SPS_A
    fl['cfg']['pps'] = gen.PPS_A
    for k in ('vps', 'av1', 'vp9'):
        fl['cfg'].pop(k, None)
    fl['calls'] = [{'op': 'fw', 'pts': 3000 * i, 'dts': 3000 * i, 'data': [17 + i, 18, 19], 'sync': i == 0} for i in range(3)] + [{'op': 'ff'}] + \
                  [{'op': 'fw', 'pts': 9000 + 3000 * i, 'dts': 9000 + 3000 * i, 'data': [33 + i, 34], 'sync': False} for i in range(2)] + [{'op': 'ff'}, {'op': 'fi'}]
    fev = _record(ctx, [fl], os.path.join(base, 'frag'))
    fclean, _, ferr = _trace(ctx, 'TraceFrag', fev, os.path.join(base, 'frag_clean'))
    results.append(('untouched fragmented trace is silent', not fclean and not ferr, sorted(fclean)))
    flush_idx = [i for i, e in enumerate(fev) if e['ev'] == 'f_flush']

    def fm(fn):
        e2 = copy.deepcopy(fev)
        fn(e2)
        return e2

    def f1(e):
        e[flush_idx[1]]['seg']['tfdt'] -= 1
    expect('tfdt -1 -> C11', 'TraceFrag', fm(f1), 'C11/', 'f1')

    def f2(e):
        e[flush_idx[1]]['seg']['seq'] += 1
    expect('sequence number +1 -> C10/SeqNumbers', 'TraceFrag', fm(f2), 'C10/SeqNumbers', 'f2')

    def f3(e):
        e[flush_idx[0]]['seg']['s'][1]['b'][0] ^= 4
    expect('segment sample byte changed -> C10/Conservation', 'TraceFrag', fm(f3), 'C10/Conservation', 'f3')

    # ---- function table --------------------------------------------------------------------
    fdir = os.path.join(base, 'fn')
    core.run_harness(ctx, ['fnt', '--alpha', '0,1,2,3,255', '--maxlen', '4', '--shards', '1', '--out', fdir])
    fn_ev = [json.loads(l) for l in open(os.path.join(fdir, 'shard_0.ndjson'))]
    nclean, _, nerr = _trace(ctx, 'TraceFn', fn_ev, os.path.join(base, 'fn_clean'))
    results.append(('untouched function table is silent', not nclean and not nerr, sorted(nclean)))
    e2 = copy.deepcopy(fn_ev)
    for e in e2:
        if e['ev'] == 'fn' and len(e['in']) == 4 and e['in'][:3] == [0, 0, 1]:
            e['avcc'][-1] ^= 1
            break
    expect('converted byte changed -> C14/Reframe', 'TraceFn', e2, 'C14/Reframe', 'n1')
    e3 = [e for i, e in enumerate(fn_ev) if i != 50]
    sigs, consumed, errors = _trace(ctx, 'TraceFn', e3, os.path.join(base, 'n2'))
    results.append(('skipped input in the enumeration -> tool error (INCOMPLETE), not a verdict', bool(errors), [x[:80] for x in errors[:1]]))

    # ---- creation-date table ---------------------------------------------------------------
    ddir = os.path.join(base, 'dates')
    core.run_harness(ctx, ['dates', '--from', '19000', '--to', '19400', '--stride', '1', '--shards', '1', '--out', ddir])
    d_ev = [json.loads(l) for l in open(os.path.join(ddir, 'shard_0.ndjson'))]
    dclean, _, derr = _trace(ctx, 'TraceDates', d_ev, os.path.join(base, 'dates_clean'))
    results.append(('untouched date table is silent', not dclean and not derr, sorted(dclean)))
    e2 = copy.deepcopy(d_ev)
    e2[60]['item'][9] ^= 1
    expect('one digit of one date changed -> C18/DateString', 'TraceDates', e2, 'C18/DateString', 'd1')
    e3 = [e for i, e in enumerate(d_ev) if i != 77]
    sigs, consumed, errors = _trace(ctx, 'TraceDates', e3, os.path.join(base, 'd2'))
    results.append(('skipped day in the enumeration -> tool error (INCOMPLETE), not a verdict', bool(errors), [x[:80] for x in errors[:1]]))

    # ---- design-level negative controls: each deviation switch reproduces a (former) defect of the pinned
    # tree inside the bounded model; TLC must find the corresponding property violation -------------------
    def mc_must_fail(name, module, consts, invariants, properties, want):
        cfg_text = core.mc_cfg(consts, invariants, properties)
        rc, out, wall = core.run_tlc(ctx, module, cfg_text, os.path.join(base, 'neg_' + name), workers=4, timeout=300)
        hit = ('is violated' in out) and (want in out)
        results.append(('deviation %s -> TLC reports %s violated' % (name, want), hit, []))
    def c(scen, dev, maxv, maxa, maxc, probe):
        return {'Dev': '{"%s"}' % dev, 'Scenario': '"%s"' % scen, 'VCodecs': '{"h264"}', 'ACodecs': '{"aac"}', 'MaxV': maxv, 'MaxA': maxa,
                'MaxCalls': maxc, 'MaxProbe': probe, 'Thorough': 'FALSE'}
    inv = ('FileOK', 'TwoPassStable')
    prop = ('StutterOnReject', 'FinishOnce')
    mc_must_fail('FirstPtsBeforeInnerWrite', 'MCMuxide', c('reject', 'FirstPtsBeforeInnerWrite', 2, 2, 4, 1), inv, prop, 'StutterOnReject')
    mc_must_fail('BackpatchBeforeValidate', 'MCMuxide', c('reject', 'BackpatchBeforeValidate', 2, 2, 4, 1), inv, prop, 'StutterOnReject')
    mc_must_fail('StatsFromLastSample', 'MCMuxide', c('av', 'StatsFromLastSample', 3, 2, 5, 0), inv, prop, 'FileOK')
    mc_must_fail('OffsetsInPtsOrder', 'MCMuxide', c('av', 'OffsetsInPtsOrder', 3, 2, 5, 0), inv, prop, 'FileOK')
    mc_must_fail('MeasureWithoutEmptyAudioTrak', 'MCMuxide', c('av', 'MeasureWithoutEmptyAudioTrak', 2, 1, 3, 0), inv, prop, 'TwoPassStable')
    mc_must_fail('TfdtFromAverage', 'MCFrag', {'MaxCalls': 6, 'Steps': '<- StepsC', 'Ctss': '<- CtsA', 'FDev': '{"TfdtFromAverage"}', 'VC': '"h264"', 'Start0': 9000},
                 ('Conservation', 'SeqNumbersOK', 'SegOK'), ('RejectQueuesNothing', 'EmptyFlushOK'), 'SegOK')
    for dev, want in (('WriteNotAll', 'PrefixAlways'), ('RetryAfterFail', 'SilentAfterFailure')):
        cfg_text = core.mc_cfg({'FLen': 6, 'MaxBuf': 4, 'MaxIntr': 2, 'SDev': '{"%s"}' % dev}, ('PrefixAlways', 'ErrIffFailed', 'ShortWritesHarmless'), ('SilentAfterFailure',), spec='SSpec')
        rc, out, wall = core.run_tlc(ctx, 'MuxideSink', cfg_text, os.path.join(base, 'neg_' + dev), workers=2, timeout=120)
        results.append(('deviation %s -> TLC reports %s violated' % (dev, want), ('is violated' in out) and (want in out), []))

    ok = all(r[1] for r in results)
    for name, good, detail in results:
        core.log(('PASS  ' if good else 'FAIL  ') + name + ('' if good else '  ' + json.dumps(detail)))
    shutil.rmtree(base, ignore_errors=True)
    return 0 if ok else 2


def robust(ctx, args):
    """Monitor totality: the bytes the implementation produced are damaged (bit flips, field extremes, truncation,
    deletion, duplication, zeroing; harness option cfg.corrupt) before the independent reader projects them, and the
    trace specifications must still evaluate every event: signatures are expected and ignored, a TLC evaluation
    error or an unconsumed trace is a defect of the machinery (a check would exit 2 instead of reporting a
    violation).  Not a registered check."""
    core.build_harness(ctx)
    base = os.path.join(ctx.work, 'robust')
    shutil.rmtree(base, ignore_errors=True)
    os.makedirs(base)
    rounds = int(args[0]) if args else 3
    bad = 0
    total = 0
    F = {'bytes': True, 'timing': True, 'tree': True, 'raw': True}
    for rnd in range(rounds):
        sets = [('layout', 'TraceMuxide', gen.generate('layout', 0, ctx.seed, 'quick')),
                ('mux', 'TraceMuxide', [gen.generate('mux', 1, ctx.seed * 100 + k, 'quick')[0] for k in range(300)]),
                ('meta', 'TraceMuxide', gen.generate('meta', 0, ctx.seed, 'quick')[:600]),
                ('widths', 'TraceMuxide', [o for o in gen.generate('widths', 0, ctx.seed, 'quick') if 'kind' not in o][:40]),
                ('frag', 'TraceFrag', [gen.generate('frag', 1, ctx.seed * 100 + k, 'quick')[0] for k in range(300)]),
                ('fraginit', 'TraceFrag', gen.generate('fraginit', 0, ctx.seed, 'quick'))]
        for name, trace, lines in sets:
            lines = copy.deepcopy(lines)
            for k, o in enumerate(lines):
                o['cfg']['corrupt'] = 1 + rnd * 100003 + k
                o['cfg']['facets'] = dict(F)
            d = os.path.join(base, '%s_%d' % (name, rnd))
            os.makedirs(d)
            r = corpora.run_lines(ctx, name, lines, d, trace=trace, harness_cmd='replay', inst_div=8)
            total += len(lines)
            nsig = len(r.get('sigs', []))
            errs = r.get('errors', [])
            print('%-9s round %d: %5d instances, %6d events, %6d signatures, %d tool errors' % (name, rnd, len(lines), r.get('events', 0), nsig, len(errs)))
            for e in errs[:2]:
                print('   ', e[:3000])
            bad += len(errs)
            shutil.rmtree(d, ignore_errors=True)
    # ---- second phase: the reported OUTCOMES deviate (a call that must fail is reported as accepted and vice
    # versa, another error variant, statistics off): the model has to follow what the implementation claims
    # (e.g. store a sample whose framing is invalid) without failing to evaluate ----
    import random, glob
    VARS = ['EmptyVideoFrame', 'InvalidAdts', 'NonIncreasingVideoPts', 'AudioBeforeFirstVideo', 'Io', 'AlreadyFinished', 'NegativeVideoPts',
            'FirstVideoFrameMustBeKeyframe', 'InvalidOpusPacket', 'AudioNotConfigured', 'Bogus']
    for rnd in range(rounds):
        rng = random.Random(1000 + rnd)
        for name, trace, cmdname in (('contract', 'TraceMuxide', 'replay'), ('adts', 'TraceMuxide', 'replay'), ('frag', 'TraceFrag', 'replay')):
            d = os.path.join(base, 'out_%s_%d' % (name, rnd))
            os.makedirs(d)
            if name == 'contract':
                lines = [o for k in range(400) for o in [gen.generate('mux', 1, ctx.seed * 100 + k + 7000 * rnd, 'quick')[0]]]
                # add invalid frames of every class after the valid prefix
                for o in lines:
                    calls = o['calls']
                    fin = calls.pop() if calls and calls[-1]['op'] == 'fin' else None
                    for _ in range(3):
                        kind = rng.choice(['wv', 'wa'])
                        data = rng.choice([[], [0xff], [0xff, 0xf1, 0x4c, 0x80, 0, 0x3f, 0xfc, 1], [0, 0, 0, 1, 0x41, 1], [3], [0xde, 0xad, 0xbe, 0xef], [0xff, 0xf1, 0x4c, 0x80, 0xff, 0xff, 0xfc]])
                        c = {'op': kind, 'pts': gen.fin(rng.choice([0, 1, 9000, 500000])), 'data': data}
                        if kind == 'wv':
                            c['key'] = rng.random() < 0.5
                        calls.append(c)
                    if fin:
                        calls.append(fin)
            elif name == 'adts':
                lines = gen.generate('adts', 0, ctx.seed, 'quick')
            else:
                lines = [gen.generate('frag', 1, ctx.seed * 100 + k + 7000 * rnd, 'quick')[0] for k in range(300)]
            inp = os.path.join(d, 'in.ndjson')
            with open(inp, 'w') as f:
                for o in lines:
                    f.write(json.dumps(o) + '\n')
            core.run_harness(ctx, ['replay', '--in', inp, '--out', os.path.join(d, 'trace'), '--shards', '16'])
            files = sorted(glob.glob(os.path.join(d, 'trace', 'shard_*.ndjson')))
            nmut = 0
            for fpath in files:
                evs = [json.loads(l) for l in open(fpath)]
                for e in evs:
                    if 'ok' in e and e.get('ev') != 'new' and rng.random() < 0.2:
                        nmut += 1
                        r = rng.random()
                        if r < 0.5:
                            e['ok'] = not e['ok']
                            e['var'] = '' if e['ok'] else rng.choice(VARS)
                        elif r < 0.75 and not e['ok']:
                            e['var'] = rng.choice(VARS)
                        elif 'stats' in e:
                            k = rng.choice(list(e['stats'].keys()))
                            e['stats'][k] = rng.choice([0, 1, 7, 10 ** 9])
                        else:
                            for k in ('sa', 'sb'):
                                if k in e:
                                    e[k] = rng.choice([0, 1, e[k] + 1, 10 ** 9])
                with open(fpath, 'w') as f:
                    for e in evs:
                        f.write(json.dumps(e) + '\n')
            sigs, consumed, errors = core.run_trace_shards(ctx, trace, files, os.path.join(d, 'tv'))
            total += len(lines)
            print('%-9s outcomes round %d: %5d instances, %6d events, %5d mutated, %6d signatures, %d tool errors' % (name, rnd, len(lines), consumed, nmut, len(sigs), len(errors)))
            for e in errors[:2]:
                print('   ', e[:3000])
            bad += len(errors)
            shutil.rmtree(d, ignore_errors=True)
    # ---- third phase: generic damage of recorded FACTS (numbers, byte arrays, flags, strings) in the traces of the
    # function tables, the CLI, the validation tables, the sink-fault corpus and the date table: whatever the
    # implementation is reported to have returned, the judge must evaluate ----
    def damage(v, rng, depth=0, byte=False):
        # what the harness can actually record: bytes stay bytes, the "panic" variant always comes with its message
        if isinstance(v, bool):
            return (not v) if rng.random() < 0.5 else v
        if isinstance(v, int):
            if byte:
                return rng.choice([0, 1, (v + 1) % 256, 255, 128]) if rng.random() < 0.6 else v
            return rng.choice([0, 1, v + 1, max(0, v - 1), 255, 256, 65535, 10 ** 9, -1]) if rng.random() < 0.6 else v
        if isinstance(v, str):
            return rng.choice(['', 'x', v + 'x', 'ok']) if (rng.random() < 0.3 and v != 'panic') else v
        if isinstance(v, list):
            if v and all(isinstance(x, int) and not isinstance(x, bool) and 0 <= x <= 255 for x in v):
                r = rng.random()
                if r < 0.25:
                    return v[:rng.randrange(0, len(v))]
                if r < 0.4:
                    return v + [v[-1]]
                return [damage(x, rng, depth + 1, True) if rng.random() < 0.3 else x for x in v]
            r = rng.random()
            if r < 0.25 and v:
                return v[:rng.randrange(0, len(v))]
            if r < 0.4 and v:
                return v + [copy.deepcopy(v[-1])]
            if r < 0.5:
                return []
            return [damage(x, rng, depth + 1) if rng.random() < 0.3 else x for x in v]
        if isinstance(v, dict):
            return {k: (damage(x, rng, depth + 1) if rng.random() < 0.4 else x) for k, x in v.items()}
        return v
    KEEP = {'ev', 'i', 'k', 'fn', 'f', 'in', 'alpha', 'maxlen', 'base', 'shards', 'from', 'to', 'stride', 'days', 'sod', 'cfg', 'opts', 'cmd', 'kind', 'calls', 'op', 'data', 'pts', 'dts', 'key', 'how', 'ms', 'n'}
    def run_generic(name, trace, make):
        nonlocal total, bad
        for rnd in range(rounds):
            rng = random.Random(5000 + rnd)
            d = os.path.join(base, 'gen_%s_%d' % (name, rnd))
            os.makedirs(d)
            files = make(d)
            nmut = 0
            for fpath in files:
                evs = [json.loads(l) for l in open(fpath)]
                for e in evs:
                    if rng.random() < 0.15:
                        for k in list(e.keys()):
                            if k not in KEEP and rng.random() < 0.5:
                                e[k] = damage(e[k], rng)
                                nmut += 1
                with open(fpath, 'w') as f:
                    for e in evs:
                        f.write(json.dumps(e) + '\n')
            sigs, consumed, errors = core.run_trace_shards(ctx, trace, files, os.path.join(d, 'tv'))
            # an enumeration judge may refuse a damaged table as INCOMPLETE (a tool error by design); only evaluation errors count
            errors = [e for e in errors if 'INCOMPLETE' not in e]
            print('%-9s facts round %d: %6d events, %5d fields damaged, %6d signatures, %d evaluation errors' % (name, rnd, consumed, nmut, len(sigs), len(errors)))
            for e in errors[:2]:
                print('   ', e[:2500])
            bad += len(errors)
            total += 1
            shutil.rmtree(d, ignore_errors=True)
    def mk_fn(d):
        core.run_harness(ctx, ['fnt', '--alpha', '0,1,2,3,255', '--maxlen', '5', '--shards', '8', '--out', os.path.join(d, 'fn')])
        return sorted(glob.glob(os.path.join(d, 'fn', 'shard_*.ndjson')))
    def mk_lines(genname, cmd='replay', n=None):
        def mk(d):
            lines = gen.generate(genname, 0, ctx.seed, 'quick')
            if n:
                lines = lines[:n]
            inp = os.path.join(d, 'in.ndjson')
            with open(inp, 'w') as f:
                for o in lines:
                    f.write(json.dumps(o) + '\n')
            core.run_harness(ctx, [cmd, '--in', inp, '--out', os.path.join(d, 'trace'), '--shards', '8'])
            return sorted(glob.glob(os.path.join(d, 'trace', 'shard_*.ndjson')))
        return mk
    def mk_dates(d):
        core.run_harness(ctx, ['dates', '--from', '0', '--to', '2932896', '--stride', '997', '--shards', '4', '--out', os.path.join(d, 'dt')])
        return sorted(glob.glob(os.path.join(d, 'dt', 'shard_*.ndjson')))
    run_generic('fn', 'TraceFn', mk_fn)
    run_generic('cli', 'TraceCli', mk_lines('cli'))
    run_generic('dates', 'TraceDates', mk_dates)
    run_generic('sink', 'TraceMuxide', mk_lines('sink_calls'))
    run_generic('layout', 'TraceMuxide', mk_lines('layout', n=300))
    run_generic('fraginit', 'TraceFrag', mk_lines('fraginit'))
    print('robust: %d damaged instances, %d tool errors' % (total, bad))
    return 0 if bad == 0 else 1
