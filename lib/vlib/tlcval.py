"""Parsing of values printed by TLC (PrintT of a string built with ToString)."""


def unquote(line):
    """A PrintT'ed string: "....", with \\" and \\\\ escapes."""
    s = line.strip()
    if s.startswith('"') and s.endswith('"'):
        s = s[1:-1]
    out = []
    i = 0
    while i < len(s):
        c = s[i]
        if c == '\\' and i + 1 < len(s):
            n = s[i + 1]
            if n == 'n':
                out.append('\n')
            elif n == 't':
                out.append('\t')
            else:
                out.append(n)
            i += 2
        else:
            out.append(c)
            i += 1
    return ''.join(out)


class _P:
    def __init__(self, s):
        self.s = s
        self.i = 0

    def ws(self):
        while self.i < len(self.s) and self.s[self.i] in ' \n\t\r':
            self.i += 1

    def parse(self):
        self.ws()
        s = self.s
        if s.startswith('<<', self.i):
            self.i += 2
            items = self.items('>>')
            return ('tuple', items)
        if s[self.i] == '{':
            self.i += 1
            items = self.items('}')
            return ('set', items)
        if s[self.i] == '[':
            self.i += 1
            fields = []
            while True:
                self.ws()
                if s[self.i] == ']':
                    self.i += 1
                    break
                j = s.index('|->', self.i)
                name = s[self.i:j].strip()
                self.i = j + 3
                val = self.parse()
                fields.append((name, val))
                self.ws()
                if s[self.i] == ',':
                    self.i += 1
            return ('rec', fields)
        if s[self.i] == '"':
            j = self.i + 1
            out = []
            while s[j] != '"':
                if s[j] == '\\':
                    j += 1
                out.append(s[j])
                j += 1
            self.i = j + 1
            return ''.join(out)
        j = self.i
        while j < len(s) and s[j] not in ',>}] \n':
            j += 1
        tok = s[self.i:j]
        self.i = j
        if tok in ('TRUE', 'FALSE'):
            return tok == 'TRUE'
        try:
            return int(tok)
        except ValueError:
            return tok

    def items(self, close):
        out = []
        while True:
            self.ws()
            if self.s.startswith(close, self.i):
                self.i += len(close)
                return out
            out.append(self.parse())
            self.ws()
            if self.i < len(self.s) and self.s[self.i] == ',':
                self.i += 1


def parse(s):
    return _P(s).parse()


def render(v):
    """Compact canonical rendering used as the class string of a signature."""
    if isinstance(v, tuple):
        kind, items = v
        if kind == 'tuple':
            return '(' + ','.join(render(x) for x in items) + ')'
        if kind == 'set':
            return '{' + ','.join(sorted(render(x) for x in items)) + '}'
        if kind == 'rec':
            return '[' + ','.join('%s=%s' % (k, render(x)) for k, x in items) + ']'
    if isinstance(v, bool):
        return 'true' if v else 'false'
    return str(v)


def sig_tuple(s):
    """<<"C01", "SampleBytes", "video", cls>> -> [p, q, site, cls-as-string]"""
    v = parse(s)
    assert isinstance(v, tuple) and v[0] == 'tuple' and len(v[1]) == 4, s
    p, q, site, cls = v[1]
    if isinstance(cls, str) and (cls.startswith('<<') or cls.startswith('{')):
        try:
            cls = parse(cls)     # a class built with ToString(<<...>>): render it canonically
        except Exception:
            pass
    return [render(p), render(q), render(site), render(cls)]
