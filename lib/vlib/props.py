"""Per-property registration: which corpora decide it, the level claimed, the evidence rule."""

MUX_ASSUME = [
    'TLC explores the bounded model exhaustively only within the stated alphabets and depths',
    'the independent ISO-BMFF reader in harness/src/reader.rs reports box contents faithfully',
    'timestamps of ordinary instances keep inter-sample gaps below 2^20 ticks and totals below 2^30 ticks, so no field-width boundary is in reach (boundaries are C16 instances)',
]


def _p(corpora, level='model_checking', rule='', assumptions=None):
    return {'corpora': corpora, 'level': level, 'rule': rule, 'assumptions': assumptions or MUX_ASSUME}


def apalache_frag(ctx):
    """Unbounded design-level strengthening of C10 (conservation, sequence numbers): the inductive invariant of
    spec/FragInd.tla is discharged by Apalache (initiation at length 0, consecution at length 1)."""
    import subprocess, os, shutil
    from . import core
    wd = os.path.join(ctx.work, 'apalache_frag')
    shutil.rmtree(wd, ignore_errors=True)
    os.makedirs(wd)
    spec = os.path.join(ctx.spec, 'FragInd.tla')
    for args in (['--init=Init', '--inv=IndInv', '--length=0'], ['--init=IndInit', '--inv=IndInv', '--length=1']):
        p = subprocess.run(['timeout', '600', 'apalache-mc', 'check'] + args + [spec], cwd=wd, stdout=subprocess.PIPE, stderr=subprocess.STDOUT, text=True)
        if 'EXITCODE: OK' not in p.stdout:
            shutil.rmtree(wd, ignore_errors=True)
            raise core.ToolError('Apalache did not discharge the inductive invariant of FragInd.tla (%s):\n%s' % (' '.join(args), p.stdout[-1500:]))
    shutil.rmtree(wd, ignore_errors=True)
    return []


def apalache_sink(ctx):
    """Unbounded design-level strengthening of C13: the inductive invariant of spec/SinkInd.tla (prefix, error iff
    failure, short writes harmless) and the action invariant Silent (nothing reaches the sink after a failure) are
    discharged by Apalache for files of any length and buffers of any size."""
    import subprocess, os, shutil
    from . import core
    wd = os.path.join(ctx.work, 'apalache_sink')
    shutil.rmtree(wd, ignore_errors=True)
    os.makedirs(wd)
    spec = os.path.join(ctx.spec, 'SinkInd.tla')
    for args in (['--init=Init', '--inv=IndInv', '--length=0'], ['--init=IndInit', '--inv=IndInv', '--length=1'], ['--init=IndInit', '--inv=Silent', '--length=1']):
        p = subprocess.run(['timeout', '600', 'apalache-mc', 'check'] + args + [spec], cwd=wd, stdout=subprocess.PIPE, stderr=subprocess.STDOUT, text=True)
        if 'EXITCODE: OK' not in p.stdout:
            shutil.rmtree(wd, ignore_errors=True)
            raise core.ToolError('Apalache did not discharge %s of SinkInd.tla:\n%s' % (' '.join(args), p.stdout[-1500:]))
    shutil.rmtree(wd, ignore_errors=True)
    return []


def send_witness(ctx):
    """C17 auto-trait clause: decided by rustc while building the witness binary (not by TLC)."""
    import subprocess, os
    env = dict(os.environ)
    env['CARGO_NET_OFFLINE'] = 'true'
    p = subprocess.run(['cargo', 'build', '--offline', '--bin', 'sendwitness'], cwd=ctx.harness_dir, env=env,
                       stdout=subprocess.PIPE, stderr=subprocess.STDOUT, text=True)
    if p.returncode != 0:
        return [{'sig': ['C17', 'SendSync', 'rustc', 'does-not-compile'], 'detail': p.stdout[-3000:], 'inst': 0, 'ev': 0,
                 'line': {'witness': 'harness/src/bin/sendwitness.rs', 'compiler_output': p.stdout[-3000:]}}]
    return []


PROPS = {
    'C20': _p(lambda t: ['cli'],
              rule='a case is an option record for the muxide binary (mux: valid baseline, every option varied on its own, seeded random combinations; validate: every pair of input classes; info: library-produced, damaged and random files); every one is non-trivial',
              assumptions=['the option space is covered one factor at a time plus seeded random combinations, not as a full product', 'dry-run verdicts and stray audio parameters without audio input are not judged (TraceCli.tla, MuxUnclear)', 'unreadable (permission-denied) inputs are not exercised because the checks run as root']),
    'C16': _p(lambda t: ['bound', 'boundfrag', 'av', 'layout', 'contract', 'fraginit'],
              rule='a case is a boundary instance: timestamps are multiples of a unit U in {2^30, 2^31-1, 2^31, 2^32-1, 2^32} so that small multiples land just below / on / above the 32-bit limits of sample deltas, total durations and composition offsets; dimension / parameter-set / rate boundaries come from the layout and init-segment corpora; non-trivial when some derived quantity is within one step of a field boundary',
              assumptions=['box sizes / chunk offsets around 4 GiB are out of reach of any execution in this sandbox and are not covered', 'values are compared through quotient/remainder w.r.t. the unit because TLC integers are 32-bit']),
    'C12': _p(lambda t: ['extreme', 'extremefrag', 'mutbytes', 'mutframes', 'contract', 'reject', 'finish', 'conv', 'av', 'frag', 'fraginit', 'fn14', 'fncfg', 'fnobu', 'fnopus', 'metalayout',
                         'meta', 'layout', 'codeccfg', 'adts', 'bound', 'boundfrag', 'sink', 'valtab', 'dates'], level='exploration',
              rule='a case is a (public item, input) pair: argument extremes and arbitrary f64 bit patterns for every entry point, every prefix and single-bit flip of generated bitstream headers, the exhaustive small-scope byte strings, all contract probes, and every execution of every other corpus (a panic or hang anywhere is a C12 signature); non-trivial when the input is not the valid baseline',
              assumptions=['small-scope exhaustion plus grammar-directed mutation, not a proof over all byte strings', 'the harness is built with overflow checks and debug assertions; a panic is caught with catch_unwind, a call that does not return within the watchdog limit is reported as a hang']),

    'C17': dict(_p(lambda t: ['modes', 'conv'],
              rule='a case is a (behaviour, execution mode) pair: the behaviour re-run on the same thread after other muxers, on a fresh thread, on 4 concurrent threads, into Vec / Cursor / BufWriter<File> / one-byte-at-a-time sinks, with the muxer moved to a new thread for every call, through the builder aliases, audio codec none, the three finish entry points, and the convenience calls vs. their explicit form; non-trivial when the mode differs from the baseline run',
              assumptions=['determinism is observed, not proved: bounded behaviours x the listed modes', 'the clause Muxer<W>: Send for all W: Send (+ Sync) is decided by rustc on harness/src/bin/sendwitness.rs, not by TLC']),
              pre=send_witness),

    'C18': _p(lambda t: ['meta', 'layout', 'dates', 'metalayout'],
              rule='a case is a metadata value (title bytes / Unix day + second of day / language code / presence combination) on a muxer run, each also compared with the metadata-free run of the same history; non-trivial when it differs from the empty metadata',
              assumptions=['dates are judged for 1970-01-01 .. 9999-12-31; larger creation times only for termination (C12)', 'the closed-form Civil() of Meta.tla is itself checked by TLC against the counting definition (MCMeta)', 'malformed language codes are not judged (only absence of panics)']),

    'C02': _p(lambda t: ['layout', 'frag', 'fraginit', 'meta', 'av', 'bound', 'boundfrag'],
              rule='a case is an emitted byte stream (progressive file, init segment, media segment) with a distinct configuration/history; every one is non-trivial'),
    'C07': _p(lambda t: ['layout', 'fraginit', 'fncfg', 'fnobu', 'codeccfg'],
              rule='a case is a distinct first key frame / builder parameter-set tuple / configuration (codec x dimensions x audio rate x channels); non-trivial when it is accepted and a file or init segment is produced'),
    'C19': _p(lambda t: ['layout', 'fraginit', 'frag', 'bound', 'boundfrag'],
              rule='a case is an emitted byte stream with a distinct configuration (codec x audio x metadata x layout x dimensions / init segment / media segment); every one is non-trivial'),

    'C14': _p(lambda t: ['fn14', 'adts', 'fncfg'],
              rule='a case is an input byte string (all strings up to the length bound over {00,01,02,03,FF}, enumerated completely; completeness is itself checked by TLC against the canonical enumeration) or an ADTS header tuple (frame length x protection flag x buffer length x sampling index x channel configuration); non-trivial when it can contain a start code (length >= 3)',
              assumptions=['exhaustive only up to the length bound and over the 5-byte alphabet, which contains every start-code-relevant byte class (00, 01, other low values, a high value)', 'ADTS payloads are recovered from finished files by the independent reader']),

    'C13': dict(_p(lambda t: ['sink'], level='fault_enumeration',
              rule='a case is a (history, fault schedule) pair: every write-call index x {5 error kinds, Ok(0), Interrupted x1/x3, accept 1, accept n-1, fail-once} and every byte offset of the output as a short-write cut, for representative histories of every layout; non-trivial when the schedule contains a non-full response',
              assumptions=['fault schedules are enumerated for representative histories (listed in coverage.samples), not for all histories', 'the design-level model MuxideSink.tla is checked for files of 6 abstract bytes and buffers of <= 4',
                           'additionally, the prefix / error-iff-failure / silence-after-failure clauses are proved for files of any length, buffers of any size and any number of Interrupted responses on the counter abstraction spec/SinkInd.tla by an inductive invariant and an action invariant discharged with Apalache (design level)']),
              pre=apalache_sink, coverage_extra=lambda results: {'apalache_inductive_invariant': {'module': 'SinkInd.tla', 'obligations': 3, 'discharged': 3}}),

    'C10': dict(_p(lambda t: ['frag'],
              rule='a case is a write/flush/query/init sequence on a fragmented muxer enumerated by TLC from MCFrag or drawn by the seeded generator; non-trivial when >= 2 segments are emitted',
              assumptions=['bounded: sequences up to the stated length over the stated dts-step / composition-offset alphabets, plus seeded random runs of up to 100 samples', 'the independent reader resolves trun/tfdt/mfhd faithfully',
                           'additionally, the conservation / sequence-number clauses are proved for histories of any length on the counter abstraction spec/FragInd.tla by an inductive invariant discharged with Apalache (design level)']),
              pre=apalache_frag, coverage_extra=lambda results: {'apalache_inductive_invariant': {'module': 'FragInd.tla', 'obligations': 2, 'discharged': 2}}),
    'C11': _p(lambda t: ['frag'],
              rule='as C10; non-trivial when >= 2 segments are emitted',
              assumptions=['bounded: sequences up to the stated length over the stated dts-step / composition-offset alphabets, plus seeded random runs of up to 100 samples', 'the constant-cadence clause is judged only when every segment holds >= 2 samples']),

    'C04': _p(lambda t: ['contract', 'reject', 'finish', 'bound', 'fnopus', 'fncfg', 'fnobu', 'mutbytes'],
              rule='a case is a (state-building prefix, probe call) history enumerated by TLC from MCMuxide (scenarios contract/reject/finish); non-trivial when some call is rejected or >= 2 calls are accepted'),
    'C05': _p(lambda t: ['reject', 'frag', 'bound'],
              rule='a case is a history pair (H, H minus its rejected calls), both executed and compared; non-trivial when H contains a rejected call followed by an accepted call or a finish'),
    'C06': _p(lambda t: ['finish', 'av', 'contract', 'sink', 'reject', 'metalayout', 'bound'],
              rule='a case is a history with >= 1 finish attempt and >= 1 other call'),

    'C01': _p(lambda t: ['av', 'adts', 'layout', 'metalayout'],
              rule='a case is a (configuration, call sequence) pair enumerated by TLC from MCMuxide (scenario av) or drawn by the seeded generator; distinct by input hash; non-trivial when some track holds >= 2 accepted samples'),
    'C03': _p(lambda t: ['av', 'layout', 'metalayout', 'bound'] if t == 'quick' else ['av', 'layout', 'metalayout', 'bound', 'long'],
              rule='as C01: distinct (configuration, call sequence) pairs with >= 2 accepted samples in some track'),
    'C08': _p(lambda t: ['av', 'metalayout'],
              rule='every case is executed with fast start on and off and the two outputs compared; non-trivial when some track holds >= 2 samples'),
    'C09': _p(lambda t: ['av', 'reject', 'layout', 'metalayout', 'conv'],
              rule='distinct (configuration, call sequence) pairs with >= 1 accepted sample in each track'),
    'C15': _p(lambda t: ['av', 'layout', 'metalayout'],
              rule='distinct (configuration, call sequence) pairs with >= 1 accepted sample in each track'),
}


NOT_CLAIMED = {}
