"""Per-property registration: which corpora decide it, the level claimed, the evidence rule."""

MUX_ASSUME = [
    'TLC explores the bounded model exhaustively only within the stated alphabets and depths',
    'the independent ISO-BMFF reader in harness/src/reader.rs reports box contents faithfully',
    'timestamps of ordinary instances keep inter-sample gaps below 2^20 ticks and totals below 2^30 ticks, so no field-width boundary is in reach (boundaries are C16 instances)',
]


def _p(corpora, level='model_checking', rule='', assumptions=None):
    return {'corpora': corpora, 'level': level, 'rule': rule, 'assumptions': assumptions or MUX_ASSUME}


PROPS = {
    'C01': _p(lambda t: ['av'],
              rule='a case is a (configuration, call sequence) pair enumerated by TLC from MCMuxide (scenario av) or drawn by the seeded generator; distinct by input hash; non-trivial when some track holds >= 2 accepted samples'),
    'C03': _p(lambda t: ['av'],
              rule='as C01: distinct (configuration, call sequence) pairs with >= 2 accepted samples in some track'),
    'C08': _p(lambda t: ['av'],
              rule='every case is executed with fast start on and off and the two outputs compared; non-trivial when some track holds >= 2 samples'),
    'C09': _p(lambda t: ['av'],
              rule='distinct (configuration, call sequence) pairs with >= 1 accepted sample in each track'),
    'C15': _p(lambda t: ['av'],
              rule='distinct (configuration, call sequence) pairs with >= 1 accepted sample in each track'),
}
