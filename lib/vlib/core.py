"""Orchestration for the muxide TLA+ verification machinery (stdlib only)."""
import sys, os, json, subprocess, hashlib, time, re, shutil, fcntl, glob

from . import tlcval, corpora, props

REPO = os.environ.get('VERIF_REPO', '/repo')


class ToolError(Exception):
    pass


def log(*a):
    print(*a, flush=True)


# ------------------------------------------------------------------------------------------------
# hashing / paths
# ------------------------------------------------------------------------------------------------
def _hash_files(paths):
    h = hashlib.sha256()
    for p in sorted(paths):
        try:
            with open(p, 'rb') as f:
                h.update(p.encode())
                h.update(b'\0')
                h.update(f.read())
        except OSError:
            pass
    return h.hexdigest()[:16]


def tree_hash():
    files = []
    for base, _, names in os.walk(os.path.join(REPO, 'src')):
        for n in names:
            files.append(os.path.join(base, n))
    files += [os.path.join(REPO, 'Cargo.toml'), os.path.join(REPO, 'Cargo.lock')]
    return _hash_files(files)


def spec_hash(root):
    files = glob.glob(os.path.join(root, 'spec', '*.tla')) + glob.glob(os.path.join(root, 'spec', '*.cfg'))
    for base, _, names in os.walk(os.path.join(root, 'harness', 'src')):
        files += [os.path.join(base, n) for n in names]
    files += glob.glob(os.path.join(root, 'lib', 'vlib', '*.py'))
    files += [os.path.join(root, 'harness', 'Cargo.toml')]
    return _hash_files(files)


class Ctx:
    def __init__(self, root, tier, seed):
        self.root = root
        self.tier = tier
        self.seed = seed
        self.work = os.path.join(root, 'work')
        self.spec = os.path.join(root, 'spec')
        self.harness_dir = os.path.join(root, 'harness')
        self.harness_bin = os.path.join(root, 'harness', 'target', 'debug', 'muxide-verif-harness')
        os.makedirs(self.work, exist_ok=True)
        self._th = None
        self._sh = None

    def tree_hash(self):
        if self._th is None:
            self._th = tree_hash()
        return self._th

    def spec_hash(self):
        if self._sh is None:
            self._sh = spec_hash(self.root)
        return self._sh


# ------------------------------------------------------------------------------------------------
# building
# ------------------------------------------------------------------------------------------------
def build_harness(ctx):
    """(Re)build the harness against /repo's current working tree.  cargo decides what is stale."""
    lock_src = os.path.join(REPO, 'Cargo.lock')
    lock_dst = os.path.join(ctx.harness_dir, 'Cargo.lock')
    try:
        if open(lock_src, 'rb').read() != open(lock_dst, 'rb').read():
            shutil.copyfile(lock_src, lock_dst)
    except OSError:
        shutil.copyfile(lock_src, lock_dst)
    lockf = open(os.path.join(ctx.work, 'build.lock'), 'w')
    fcntl.flock(lockf, fcntl.LOCK_EX)
    try:
        env = dict(os.environ)
        env['CARGO_NET_OFFLINE'] = 'true'
        t0 = time.time()
        p = subprocess.run(['cargo', 'build', '--offline', '--bins'], cwd=ctx.harness_dir, env=env,
                           stdout=subprocess.PIPE, stderr=subprocess.STDOUT, text=True)
        if p.returncode != 0:
            # A compile failure of /repo (or of the Send/Sync witness in the harness) is reported
            # by the caller; here it is a tool error unless the property handles it.
            raise ToolError('cargo build failed:\n' + p.stdout[-4000:])
        # the muxide CLI binary, built from /repo's tree into the harness target dir
        p2 = subprocess.run(['cargo', 'build', '--offline', '--manifest-path', os.path.join(REPO, 'Cargo.toml'),
                             '--bin', 'muxide', '--target-dir', os.path.join(ctx.harness_dir, 'target', 'repo')],
                            cwd=ctx.harness_dir, env=env, stdout=subprocess.PIPE, stderr=subprocess.STDOUT, text=True)
        if p2.returncode != 0:
            raise ToolError('cargo build of muxide CLI failed:\n' + p2.stdout[-4000:])
        return time.time() - t0
    finally:
        fcntl.flock(lockf, fcntl.LOCK_UN)
        lockf.close()


def sany_all(ctx):
    bad = []
    jtmp = os.path.join(ctx.work, 'sany_tmp_%d' % os.getpid())     # SANY unpacks the standard modules into the JVM temporary directory
    os.makedirs(jtmp, exist_ok=True)
    env = dict(os.environ, JAVA_TOOL_OPTIONS='-Djava.io.tmpdir=%s' % jtmp)
    for f in sorted(glob.glob(os.path.join(ctx.spec, '*.tla'))):
        p = subprocess.run(['tla-sany', os.path.basename(f)], cwd=ctx.spec, stdout=subprocess.PIPE,
                           stderr=subprocess.STDOUT, text=True, env=env)
        if p.returncode != 0 or 'Semantic errors' in p.stdout or 'Parsing or semantic analysis failed' in p.stdout or '***Parse Error***' in p.stdout:
            bad.append((f, p.stdout[-1500:]))
    shutil.rmtree(jtmp, ignore_errors=True)
    return bad


# ------------------------------------------------------------------------------------------------
# TLC
# ------------------------------------------------------------------------------------------------
TLC_NOISE = re.compile(r'^(Picked up|TLC2 |Running |Parsing file|Semantic processing|Linting of|Starting\.\.\.|Implied-temporal|Computing initial|Finished computing|Progress\(|Checking temporal|Finished checking temporal|Warning: Please|\(Use the|Finished in|Checking \d+ branch)')


def run_tlc(ctx, module, cfg_text, metadir, workers=4, env_extra=None, timeout=1800, heap='4g', simulate=None):
    os.makedirs(metadir, exist_ok=True)
    cfg_path = os.path.join(metadir, module + '_run.cfg')
    with open(cfg_path, 'w') as f:
        f.write(cfg_text)
    env = dict(os.environ)
    jtmp = os.path.join(metadir, 'jtmp')
    os.makedirs(jtmp, exist_ok=True)
    env['JAVA_TOOL_OPTIONS'] = '-Xss1g -Xmx%s -Djava.io.tmpdir=%s' % (heap, jtmp)   # TLC leaves a tlc-* directory per run in the JVM tmpdir
    if env_extra:
        env.update(env_extra)
    cmd = ['timeout', str(timeout), 'tlc', '-workers', str(workers), '-metadir', os.path.join(metadir, 'states'),
           '-cleanup', '-noGenerateSpecTE', '-config', cfg_path]
    if simulate:
        cmd += ['-simulate', simulate]
    cmd += [module + '.tla']
    t0 = time.time()
    p = subprocess.run(cmd, cwd=ctx.spec, env=env, stdout=subprocess.PIPE, stderr=subprocess.STDOUT, text=True)
    out = p.stdout
    shutil.rmtree(os.path.join(metadir, 'states'), ignore_errors=True)
    shutil.rmtree(jtmp, ignore_errors=True)
    return p.returncode, out, time.time() - t0


def parse_mc_output(out):
    res = {'states': 0, 'generated': 0, 'replay': [], 'error': None, 'completed': False}
    m = None
    for m in re.finditer(r'(\d[\d,]*) states generated, (\d[\d,]*) distinct states found', out):
        pass
    if m:
        res['generated'] = int(m.group(1).replace(',', ''))
        res['states'] = int(m.group(2).replace(',', ''))
    res['completed'] = 'Model checking completed. No error has been found.' in out
    if not res['completed']:
        em = re.search(r'Error: (.*)', out)
        res['error'] = em.group(1) if em else 'TLC did not complete'
    for line in out.splitlines():
        if line.startswith('"REPLAY|'):
            res['replay'].append(tlcval.unquote(line)[len('REPLAY|'):])
    return res


def mc_cfg(consts, invariants=(), properties=(), spec='Spec', extra=''):
    lines = ['SPECIFICATION %s' % spec, 'CONSTANTS']
    for k, v in consts.items():
        lines.append(('  %s %s' % (k, v)) if str(v).startswith('<-') else ('  %s = %s' % (k, v)))
    for i in invariants:
        lines.append('INVARIANT %s' % i)
    for p in properties:
        lines.append('PROPERTY %s' % p)
    lines.append('CHECK_DEADLOCK FALSE')
    if extra:
        lines.append(extra)
    return '\n'.join(lines) + '\n'


def run_trace_shards(ctx, module, shard_files, metabase, env_extra=None, parallel=8, timeout=3600):
    """Validate every shard with its own TLC process.  Returns (sigs, consumed_events, errors)."""
    cfg_text = open(os.path.join(ctx.spec, module + '.cfg')).read()
    procs = []
    results = []
    pending = list(enumerate(shard_files))
    running = []

    def start(idx, path):
        md = os.path.join(metabase, 'tv_%d' % idx)
        os.makedirs(md, exist_ok=True)
        cfg_path = os.path.join(md, module + '_run.cfg')
        with open(cfg_path, 'w') as f:
            f.write(cfg_text)
        env = dict(os.environ)
        os.makedirs(os.path.join(md, 'jtmp'), exist_ok=True)
        env['JAVA_TOOL_OPTIONS'] = '-Xss1g -Xmx3g -Djava.io.tmpdir=%s' % os.path.join(md, 'jtmp')
        env['TRACE'] = path
        if env_extra:
            env.update(env_extra)
        outp = open(os.path.join(md, 'out.txt'), 'w')
        cmd = ['timeout', str(timeout), 'tlc', '-workers', '1', '-metadir', os.path.join(md, 'states'), '-cleanup',
               '-noGenerateSpecTE', '-config', cfg_path, module + '.tla']
        p = subprocess.Popen(cmd, cwd=ctx.spec, env=env, stdout=outp, stderr=subprocess.STDOUT)
        return (idx, path, md, p, outp)

    while pending or running:
        while pending and len(running) < parallel:
            idx, path = pending.pop(0)
            if os.path.getsize(path) == 0:
                results.append((idx, path, None, 0, ''))
                continue
            running.append(start(idx, path))
        still = []
        for r in running:
            idx, path, md, p, outp = r
            if p.poll() is None:
                still.append(r)
            else:
                outp.close()
                out = open(os.path.join(md, 'out.txt')).read()
                shutil.rmtree(os.path.join(md, 'states'), ignore_errors=True)
                results.append((idx, path, p.returncode, None, out))
        running = still
        if running:
            time.sleep(0.05)
    sigs = []
    consumed = 0
    errors = []
    for idx, path, rc, _, out in sorted(results, key=lambda x: x[0]):
        if rc is None:
            continue
        ok = False
        for line in out.splitlines():
            if line.startswith('"SIG|'):
                body = tlcval.unquote(line)
                _, inst, evno, val = body.split('|', 3)
                sigs.append({'inst': int(inst), 'ev': int(evno), 'sig': tlcval.sig_tuple(val), 'shard': idx})
            elif line.startswith('"CONSUMED|'):
                consumed += int(tlcval.unquote(line).split('|')[1])
                ok = True
        if not ok:
            # the TLC message (up to the behaviour dump), the innermost evaluation positions and the tail
            em = re.search(r'^Error: (?!The behavior)(.*?)(?=^Error: The behavior|\Z)', out, re.S | re.M)
            msg = em.group(0)[:1200] if em else ''
            pos = re.findall(r'^\d+\. (Line .*)$', out, re.M)
            tail = '\n'.join(l for l in out.splitlines() if not TLC_NOISE.match(l) and not l.startswith('"SIG|'))[-600:]
            errors.append('trace validation of %s did not complete (rc=%s):\n%s\ninnermost: %s\n...%s' % (path, rc, msg, ' | '.join(pos[-3:]), tail))
    return sigs, consumed, errors


# ------------------------------------------------------------------------------------------------
# harness
# ------------------------------------------------------------------------------------------------
class HarnessKilled(ToolError):
    def __init__(self, rc, msg):
        ToolError.__init__(self, msg)
        self.rc = rc


def run_harness(ctx, args, timeout=3600):
    env = dict(os.environ)
    env['RUST_BACKTRACE'] = '0'
    env['VERIF_MUXIDE_BIN'] = os.path.join(ctx.harness_dir, 'target', 'repo', 'debug', 'muxide')
    env['VERIF_WORKDIR'] = ctx.work
    p = subprocess.run([ctx.harness_bin] + args, stdout=subprocess.PIPE, stderr=subprocess.PIPE, text=True,
                       env=env, timeout=timeout)
    if p.returncode == 3:
        # the watchdog saw a call that did not return: reported as data (C12), not as a tool error
        last = p.stdout.strip().splitlines()[-1]
        return json.loads(last)
    if p.returncode < 0 or p.returncode in (134, 139):
        # the process was killed by a signal (stack overflow, allocation failure -> abort, ...): the code under test took
        # the harness down; callers that know their input lines locate the offending one and report it as data (C12)
        raise HarnessKilled(p.returncode, 'harness %s killed (rc=%d): %s' % (args[:1], p.returncode, (p.stderr or p.stdout)[-1500:]))
    if p.returncode != 0:
        raise ToolError('harness %s failed (rc=%d): %s' % (args[:1], p.returncode, (p.stderr or p.stdout)[-2000:]))
    last = p.stdout.strip().splitlines()[-1] if p.stdout.strip() else '{}'
    try:
        return json.loads(last)
    except Exception:
        return {}


# ------------------------------------------------------------------------------------------------
# corpora with caching
# ------------------------------------------------------------------------------------------------
def corpus_result(ctx, name, use_cache=True):
    """Run (or fetch) one corpus: generation -> execution against the real code -> TLC judgement."""
    key = '%s-%s-%s-%s-%d' % (name, ctx.tree_hash(), ctx.spec_hash(), ctx.tier, ctx.seed)
    cdir = os.path.join(ctx.work, 'cache', key)
    os.makedirs(os.path.join(ctx.work, 'cache'), exist_ok=True)
    lockf = open(os.path.join(ctx.work, 'cache', name + '.lock'), 'w')
    fcntl.flock(lockf, fcntl.LOCK_EX)
    try:
        rfile = os.path.join(cdir, 'result.json')
        if use_cache and os.path.exists(rfile):
            r = json.load(open(rfile))
            r['cached'] = True
            return r
        shutil.rmtree(cdir, ignore_errors=True)
        os.makedirs(cdir)
        t0 = time.time()
        r = corpora.run(ctx, name, cdir)
        r['wall_s'] = round(time.time() - t0, 2)
        r['cached'] = False
        with open(rfile, 'w') as f:
            json.dump(r, f)
        # keep the cache small: traces are deleted, results kept; old keys of this corpus removed
        for d in glob.glob(os.path.join(ctx.work, 'cache', name + '-*')):
            if d != cdir:
                shutil.rmtree(d, ignore_errors=True)
        return r
    finally:
        fcntl.flock(lockf, fcntl.LOCK_UN)
        lockf.close()


# ------------------------------------------------------------------------------------------------
# known findings
# ------------------------------------------------------------------------------------------------
def load_known(root):
    p = os.path.join(root, 'known_findings.json')
    if not os.path.exists(p):
        return {'open': [], 'fixed': []}
    return json.load(open(p))


def sig_key(sig):
    return (sig[0], sig[1], sig[2], sig[3])


def match_known(known, sig):
    for k in known.get('open', []):
        if (k['property'], k['predicate'], k['site'], k['class']) == sig_key(sig):
            return k
    return None


# ------------------------------------------------------------------------------------------------
# property check
# ------------------------------------------------------------------------------------------------
def check_property(ctx, pid, replay_file=None):
    t0 = time.time()
    spec = props.PROPS.get(pid)
    if spec is None:
        log('unknown property', pid)
        return 2
    try:
        build_harness(ctx)
    except ToolError as e:
        log('TOOL-ERROR', str(e))
        return 2
    known = load_known(ctx.root)
    if replay_file:
        return replay_one(ctx, pid, spec, known, replay_file)
    results = []
    try:
        for cname in spec['corpora'](ctx.tier):
            log('[%s] corpus %s ...' % (pid, cname))
            r = corpus_result(ctx, cname)
            log('[%s] corpus %s: %s instances, %s events, %d signature occurrences%s (%.1fs)' % (
                pid, cname, r.get('instances'), r.get('events'), len(r.get('sigs', [])),
                ' [cached]' if r.get('cached') else '', r.get('wall_s', 0)))
            results.append((cname, r))
    except ToolError as e:
        log('TOOL-ERROR', str(e))
        return 2
    if spec.get('pre'):
        try:
            extra = spec['pre'](ctx)
        except ToolError as e:
            log('TOOL-ERROR', str(e))
            return 2
        results.append(('pre', {'sigs': extra, 'instances': 1, 'events': 0, 'samples': [], 'nontrivial': {}}))
    errors = [e for _, r in results for e in r.get('errors', [])]
    if errors:
        for e in errors[:5]:
            log('TOOL-ERROR', e)
        return 2
    # signatures of this property
    mine = {}
    for cname, r in results:
        for s in r.get('sigs', []):
            if s['sig'][0] != pid:
                continue
            k = sig_key(s['sig'])
            mine.setdefault(k, []).append((cname, s))
    known_hits, new_hits = [], []
    for k, occ in sorted(mine.items()):
        kf = match_known(known, k)
        if kf:
            known_hits.append((k, kf, occ))
        else:
            new_hits.append((k, occ))
    for k, kf, occ in known_hits:
        log('KNOWN-FINDING: property=%s %s/%s/%s %s -- %s (%d occurrences)' % (pid, k[1], k[2], k[3], '', kf.get('what', ''), len(occ)))
    rdir = os.path.join(ctx.work, 'replay', pid)
    shutil.rmtree(rdir, ignore_errors=True)
    nviol = 0
    for n, (k, occ) in enumerate(new_hits):
        os.makedirs(rdir, exist_ok=True)
        cname, s = occ[0]
        rp = os.path.join(rdir, '%d.json' % n)
        with open(rp, 'w') as f:
            json.dump({'property': pid, 'signature': list(k), 'corpus': cname, 'occurrences': len(occ),
                       'trace_module': s.get('module'), 'line': s.get('line'), 'detail': s.get('detail')}, f)
        log('VIOLATION property=%s replay=%s' % (pid, rp))
        log('  signature: %s / %s / %s / %s  (%d occurrences, first in corpus %s)' % (k[1], k[2], k[3], '', len(occ), cname))
        nviol += 1
    write_evidence(ctx, pid, spec, results, known_hits, new_hits, time.time() - t0)
    return 1 if nviol else 0


def replay_one(ctx, pid, spec, known, replay_file):
    rf = json.load(open(replay_file))
    cname = rf.get('corpus')
    line = rf.get('line')
    if line is None:
        log('replay file has no input line')
        return 2
    cdir = os.path.join(ctx.work, 'replay_run')
    shutil.rmtree(cdir, ignore_errors=True)
    os.makedirs(cdir)
    r = corpora.run_lines(ctx, cname, [line], cdir)
    if r.get('errors'):
        for e in r['errors']:
            log('TOOL-ERROR', e)
        return 2
    nviol = 0
    seen = set()
    for s in r.get('sigs', []):
        if s['sig'][0] != pid:
            continue
        k = sig_key(s['sig'])
        if k in seen:
            continue
        seen.add(k)
        if match_known(known, k):
            log('KNOWN-FINDING: property=%s %s/%s/%s' % (pid, k[1], k[2], k[3]))
        else:
            log('VIOLATION property=%s replay=%s' % (pid, replay_file))
            log('  signature: %s / %s / %s' % (k[1], k[2], k[3]))
            nviol += 1
    if not seen:
        log('replay: no signature of %s on the current tree' % pid)
    return 1 if nviol else 0


def write_evidence(ctx, pid, spec, results, known_hits, new_hits, wall):
    cov = {
        'states': sum(r.get('mc_states', 0) for _, r in results),
        'transitions': sum(r.get('mc_generated', 0) for _, r in results),
        'traces_validated_against_impl': sum(r.get('instances', 0) for _, r in results),
        'events_validated': sum(r.get('events', 0) for _, r in results),
        'behaviours_enumerated': sum(r.get('behaviours', 0) for _, r in results),
        'random_instances': sum(r.get('random_instances', 0) for _, r in results),
        'evaluations': sum(r.get('instances', 0) for _, r in results),
        'distinct_nontrivial': sum(r.get('nontrivial', {}).get(pid, r.get('nontrivial', {}).get('*', 0)) for _, r in results),
        'rule': spec.get('rule', ''),
        'samples': [s for _, r in results for s in r.get('samples', [])][:5],
        'corpora': {c: {k: r.get(k) for k in ('mc_runs', 'instances', 'events', 'behaviours', 'random_instances',
                                                'mc_states', 'mc_generated', 'wall_s', 'cached', 'shards', 'exhaustive')}
                    for c, r in results},
        'signatures_known': ['/'.join(map(str, k)) for k, _, _ in known_hits],
        'signatures_new': ['/'.join(map(str, k)) for k, _ in new_hits],
        'tree_hash': ctx.tree_hash(),
        'spec_hash': ctx.spec_hash(),
    }
    if all(r.get('exhaustive') for _, r in results) and results:
        cov['exhaustive'] = True
    if cov['states'] == 0:
        cov.pop('states')
        cov.pop('transitions')
    if not cov['samples']:
        cov['samples'] = ['(no sample recorded)']
    extra = spec.get('coverage_extra')
    if extra:
        cov.update(extra(results))
    ev = {
        'property_id': pid,
        'tier': ctx.tier,
        'seed': ctx.seed,
        'level': spec['level'],
        'coverage': cov,
        'assumptions': spec.get('assumptions', []),
        'wall_s': round(wall, 2),
        'violations': len(new_hits),
    }
    os.makedirs(os.path.join(ctx.root, 'evidence'), exist_ok=True)
    with open(os.path.join(ctx.root, 'evidence', pid + '.json'), 'w') as f:
        json.dump(ev, f, indent=1)


# ------------------------------------------------------------------------------------------------
def main(root, argv):
    tier = os.environ.get('VERIF_TIER', 'quick')
    seed = int(os.environ.get('VERIF_SEED', '1') or 1)
    replay = None
    args = []
    i = 0
    while i < len(argv):
        a = argv[i]
        if a == '--tier':
            tier = argv[i + 1]
            i += 2
        elif a == '--replay':
            replay = argv[i + 1]
            i += 2
        elif a == '--seed':
            seed = int(argv[i + 1])
            i += 2
        else:
            args.append(a)
            i += 1
    if not args:
        log(__doc__)
        return 2
    ctx = Ctx(root, tier, seed)
    cmd = args[0]
    if cmd == 'setup':
        try:
            t = build_harness(ctx)
            log('harness built in %.1fs' % t)
        except ToolError as e:
            log('TOOL-ERROR', str(e))
            return 2
        bad = sany_all(ctx)
        for f, out in bad:
            log('TOOL-ERROR SANY', f, out)
        return 2 if bad else 0
    if cmd == 'corpus':
        try:
            build_harness(ctx)
            r = corpus_result(ctx, args[1], use_cache='--no-cache' not in argv)
        except ToolError as e:
            log('TOOL-ERROR', str(e))
            return 2
        summ = {}
        for s in r.get('sigs', []):
            k = '/'.join(map(str, s['sig']))
            summ[k] = summ.get(k, 0) + 1
        log(json.dumps({k: v for k, v in r.items() if k not in ('sigs', 'samples')}, indent=1))
        for k, v in sorted(summ.items()):
            log('%6d  %s' % (v, k))
        return 0
    if cmd == 'mccount':
        # size of the TLC-enumerated part of a corpus (no replay): behaviours and time per design-check run
        defs = corpora.corpus_defs(ctx.tier)
        d = defs[args[1]]
        for k, m in enumerate(d.get('mc', [])):
            cfg_text = mc_cfg(m['consts'], m['invariants'], m['properties'], spec=m.get('spec', 'Spec'))
            rc, out, wall = run_tlc(ctx, m['module'], cfg_text, os.path.join(ctx.work, 'mccount_%d' % k), workers=8, timeout=1200)
            pr = parse_mc_output(out)
            log('%s run %d: states %d behaviours %d completed %s %.0fs %s' % (args[1], k, pr['states'], len(pr['replay']), pr['completed'], wall, pr['error'] or ''))
        return 0
    if cmd == 'selftest':
        from . import selftest
        return selftest.run(ctx, args[1:])
    if cmd == 'robust':
        from . import selftest
        return selftest.robust(ctx, args[1:])
    return check_property(ctx, cmd, replay)
