"""Corpora: where inputs come from (TLC enumeration of a bounded model, or a seeded generator),
how they are executed (harness subcommand, pairing relation) and which trace specification judges
the recorded executions."""
import os, json, glob, shutil

from . import core, gen

ALLV = '{"h264", "h265", "av1", "vp9"}'


def _mc(consts, rel='none', facets=None, module='MCMuxide', invariants=('FileOK', 'TypeOK', 'TwoPassStable'),
        properties=('StutterOnReject', 'FinishOnce'), workers=6, spec='Spec'):
    return dict(consts=consts, rel=rel, facets=facets, module=module, invariants=invariants,
                properties=properties, workers=workers, spec=spec)


def _c(scen, vcs, acs, maxv, maxa, maxcalls, thorough=False, probe=0):
    return {'Dev': '{}', 'Scenario': '"%s"' % scen, 'VCodecs': vcs, 'ACodecs': acs, 'MaxV': maxv, 'MaxA': maxa,
            'MaxCalls': maxcalls, 'MaxProbe': probe, 'Thorough': 'TRUE' if thorough else 'FALSE'}


F_ST = {'bytes': True, 'timing': True, 'tree': False, 'raw': False}
F_STT = {'bytes': True, 'timing': True, 'tree': True, 'raw': False}
F_ALL = {'bytes': True, 'timing': True, 'tree': True, 'raw': True}


def corpus_defs(tier):
    q = tier == 'quick'
    d = {}
    # --- av: every interleaving / reorder pattern / time step, both layouts --------------------
    d['av'] = dict(trace='TraceMuxide', mc=[
        _mc(_c('av', '{"h264"}', '{"aac"}', 3, 2, 5, not q), rel='layout', facets=F_STT),
        _mc(_c('av', '{"h265", "av1", "vp9"}', '{"aac", "opus"}', 2, 2, 4, not q), rel='layout', facets=F_STT),
        _mc(_c('av', ALLV, '{"none"}', 3, 0, 3, not q), rel='layout', facets=F_STT),
        _mc(_c('av', '{"h264"}', '{"opus"}', 2 if q else 3, 2, 4 if q else 5, not q), rel='layout', facets=F_STT),
    ] + ([] if q else [
        _mc(_c('av', '{"h264"}', '{"aac"}', 3, 3, 6, False), rel='layout', facets=F_STT),
    ]), rand=[dict(gen='mux', n=150 if q else 3000, rel='layout', facets=F_STT),
              dict(gen='mux_big', n=24 if q else 300, rel='layout', facets=F_STT)])
    # --- contract: every time class x frame class x entry point from every state class ---------
    cruns = []
    for pre in ([0, 1, 2] if q else [0, 1, 2, 3]):
        cruns.append(_mc(_c('contract', '{"h264"}', '{"aac"}', 2, 1, pre + 1, False, 1), facets=F_ST))
    for pre in ([0, 1] if q else [0, 1, 2]):
        cruns.append(_mc(_c('contract', '{"h265", "av1", "vp9"}', '{"opus"}' if q else '{"aac", "opus"}', 2, 1, pre + 1, False, 1), facets=F_ST))
        cruns.append(_mc(_c('contract', '{"h264"}', '{"none", "opus"}', 2, 1, pre + 1, False, 1), facets=F_ST))
    if not q:
        cruns.append(_mc(_c('contract', '{"h264"}', '{"aac"}', 2, 1, 3, False, 2), facets=F_ST))
    d['contract'] = dict(trace='TraceMuxide', mc=cruns, dedupe=True)
    # --- reject: rejected calls of every class anywhere in otherwise valid histories -------------
    d['reject'] = dict(trace='TraceMuxide', mc=[
        _mc(_c('reject', '{"h264"}', '{"aac"}', 2, 2, 4 if q else 5, False, 1 if q else 2), rel='filtered', facets=F_ST),
        _mc(_c('reject', '{"h265", "av1", "vp9"}', '{"opus"}', 2, 1, 4, False, 1), rel='filtered', facets=F_ST),
        _mc(_c('reject', '{"h264"}', '{"none", "opus"}', 2, 2, 4, False, 1), rel='filtered', facets=F_ST),
    ])
    # --- finish: the five finish entry points anywhere, calls after finish ---------------------
    d['finish'] = dict(trace='TraceMuxide', mc=[
        _mc(_c('finish', '{"h264"}', '{"aac"}', 2, 2, 4 if q else 5), facets=F_ST),
        _mc(_c('finish', '{"h265", "av1", "vp9"}', '{"none", "opus"}', 2, 1, 3 if q else 4), facets=F_ST),
    ])
    # --- conv: convenience calls (auto timestamps) vs. their explicit-timestamp equivalents ------
    d['conv'] = dict(trace='TraceMuxide', mc=[
        _mc(_c('conv', '{"h264"}', '{"aac"}', 3, 2, 5 if q else 6), rel='equiv', facets=F_ST),
        _mc(_c('conv', '{"h265", "av1", "vp9"}', '{"opus"}', 2, 2, 4), rel='equiv', facets=F_ST),
    ])
    # --- frag: every write/flush/query/init interleaving of the fragmented muxer ----------------
    def fr(maxc, steps, ctss, vc='"h264"', start=0):
        return _mc({'MaxCalls': maxc, 'Steps': '<- ' + steps, 'Ctss': '<- ' + ctss, 'FDev': '{}', 'VC': vc, 'Start0': start},
                   module='MCFrag', invariants=('Conservation', 'SeqNumbersOK', 'SegOK'),
                   properties=('RejectQueuesNothing', 'EmptyFlushOK'), facets=None, rel='filtered')
    d['frag'] = dict(trace='TraceFrag', mc=[
        fr(4 if q else 5, 'StepsA', 'CtsA'),
        fr(3 if q else 4, 'StepsB', 'CtsB', start=9000),
        fr(5 if q else 7, 'StepsC', 'CtsA', start=3000),
    ] + ([] if q else [fr(4, 'StepsA', 'CtsB', start=7)]),
        rand=[dict(gen='frag', n=200 if q else 4000, rel='filtered', facets=None), dict(gen='fragreject', n=0, rel='filtered', facets=None)])
    # --- sink: every write-call index x fault kind (and every byte offset as a short-write cut) ---
    d['sink'] = dict(trace='TraceMuxide', inst_div=100000, mc=[
        _mc({'FLen': 6, 'MaxBuf': 4, 'MaxIntr': 2, 'SDev': '{}'}, module='MuxideSink', spec='SSpec',
            invariants=('PrefixAlways', 'ErrIffFailed', 'ShortWritesHarmless'), properties=('SilentAfterFailure',)),
    ], rand=[dict(gen='sink_calls', n=0, rel=None, facets=F_ST)] + ([dict(gen='sink_bytes', n=0, rel=None, facets=F_ST)]))
    # --- fn: exhaustive byte strings over start-code-relevant alphabets through the pure functions --
    d['fn14'] = dict(trace='TraceFn', kind='fnt', mc=[
        _mc({'MaxLen': 7 if q else 9, 'Alphabet': '{0, 1, 2, 255}'}, module='MCAnnexB',
            invariants=('ConversionMeetsStatement', 'UnitsAreClean', 'Conserved'), properties=(), workers=8),
    ], runs=[
        dict(alpha=[0, 1, 2, 3, 255], maxlen=7 if q else 9, cfg=False),
    ])
    d['fnobu'] = dict(trace='TraceFn', kind='fnt', runs=[
        # OBU-framing-relevant bytes: headers with / without size field and extension, temporal delimiter, leb128 continuation, forbidden bit
        dict(alpha=[0x0a, 0x08, 0x0e, 0x12, 0x00, 0x01, 0x80, 0xff], maxlen=4 if q else 6, cfg=False),
        # VP9 marker and header bytes
        dict(alpha=[0x49, 0x83, 0x42, 0x00, 0x10, 0x80, 0x0c, 0x01], maxlen=4 if q else 6, cfg=False),
    ])
    d['fnopus'] = dict(trace='TraceFn', kind='fnt', runs=[
        # Opus TOC codes 0-3 on several configurations, frame-count bytes (0, 1, 63, 64 = padding bit, 0x80 = VBR bit)
        dict(alpha=[0x00, 0x01, 0x02, 0x03, 0xfb, 0x3f, 0x40, 0x80], maxlen=3 if q else 5, cfg=False),
    ])
    d['fncfg'] = dict(trace='TraceFn', kind='fnt', runs=[
        dict(alpha=[0, 1, 0x67, 0x68, 0x65], maxlen=6 if q else 8, cfg=True),
        dict(alpha=[0, 1, 0x40, 0x42, 0x44, 0x26], maxlen=5 if q else 7, cfg=True),
    ])
    # --- adts: header field combinations x buffer lengths, recovered from finished files ---------
    d['adts'] = dict(trace='TraceMuxide', mc=[
        _mc({}, module='MCOracles', invariants=('AdtsOK', 'OpusOK', 'Vp9OK'), properties=()),     # self-consistency of the ADTS / Opus / VP9 oracles
    ], rand=[dict(gen='adts', n=0, rel='none', facets={'bytes': True, 'timing': False, 'tree': False, 'raw': False})])
    # --- layout: all codec x audio x metadata x layout configurations; tree + raw facets --------
    d['layout'] = dict(trace='TraceMuxide', rand=[dict(gen='layout', n=0, rel='meta', facets=F_ALL), dict(gen='keydetect', n=0, rel='none', facets=None), dict(gen='ties', n=0, rel='none', facets=None)])
    d['metalayout'] = dict(trace='TraceMuxide', rand=[dict(gen='metalayout', n=0, rel='layout', facets=None)])
    # init segments: generator families, plus AV1 sequence headers enumerated by MCAv1Seq (operating points: tier / level) handed to the builder / config
    d['fraginit'] = dict(trace='TraceFrag', transform='av1init', mc=[
        _mc({'Sections': '{"operating"}', 'Lite': 'TRUE'}, module='MCAv1Seq', invariants=('RoundTrip', 'FramingOK'), properties=(), facets=None, rel=None, workers=4),
        _mc({'Sections': '{"color"}', 'Lite': 'TRUE'}, module='MCAv1Seq', invariants=('RoundTrip', 'FramingOK'), properties=(), facets=None, rel=None, workers=4),
    ], rand=[dict(gen='fraginit', n=0, rel=None, facets=None)])
    d['meta'] = dict(trace='TraceMuxide', mc=[
        _mc({'From': 0, 'To': 60000 if q else 2932896, 'Stride': 1}, module='MCMeta', invariants=('RoundTrip', 'Monotone'), properties=()),
    ] + ([_mc({'From': 0, 'To': 2932896, 'Stride': 97}, module='MCMeta', invariants=('RoundTrip',), properties=())] if q else []),
        rand=[dict(gen='meta', n=0, rel=None, facets=None)])
    # --- codeccfg: first key frames generated from the bitstream grammars -------------------------
    FR = {'bytes': True, 'timing': False, 'tree': False, 'raw': True}
    def av1(sections, lite):
        return _mc({'Sections': sections, 'Lite': 'TRUE' if lite else 'FALSE'}, module='MCAv1Seq', invariants=('RoundTrip', 'FramingOK'),
                   properties=(), facets=FR, rel='none', workers=8)
    d['codeccfg'] = dict(trace='TraceMuxide', transform='av1key', mc=[
        av1('{"color", "tools"}', True),
        av1('{"operating"}', q),
    ], rand=[dict(gen='vp9hdr', n=0, rel='none', facets=FR), dict(gen='nallist', n=0, rel='none', facets=FR)])
    # --- modes: the same behaviour in different execution modes / sinks / alias paths (C17) ---------
    d['modes'] = dict(trace='TraceMuxide', attach_others=True, mc=[
        _mc(_c('finish', '{"h264"}', '{"aac"}', 2, 1, 3 if q else 4), rel='modes', facets=F_ST),
        _mc(_c('av', '{"h265", "vp9"}', '{"opus"}', 2, 1, 3), rel='modes', facets=F_ST),
        _mc(_c('av', '{"h264", "av1"}', '{"none"}', 2, 0, 2), rel='modes', facets=F_ST),
    ], rand=[dict(gen='mux', n=20 if q else 300, rel='modes', facets=F_ST)])
    # --- extreme: argument extremes for every entry point (C12), and mutated bitstream headers -------
    d['extreme'] = dict(trace='TraceMuxide', rand=[dict(gen='extreme', n=300 if q else 5000, rel=None, facets=None)])
    d['extremefrag'] = dict(trace='TraceFrag', rand=[dict(gen='extremefrag', n=100 if q else 2000, rel=None, facets=None)])
    d['mutbytes'] = dict(trace='TraceFn', kind='fnlist', gen='mutbytes')
    d['mutframes'] = dict(trace='TraceMuxide', rand=[dict(gen='mutframes', n=0, rel=None, facets=None)])
    # --- bound: numeric embedding, values just below / on / above the 32-bit field limits (C16) -------
    d['bound'] = dict(trace='TraceMuxide', rand=[dict(gen='bound', n=0, rel='filtered', facets=None), dict(gen='widths', n=0, rel='none', facets=None)])
    d['boundfrag'] = dict(trace='TraceFrag', rand=[dict(gen='boundfrag', n=0, rel=None, facets=None)])
    # --- cli: the built muxide binary vs. the in-process library (C20) -----------------------------
    d['cli'] = dict(trace='TraceCli', rand=[dict(gen='cli', n=0, rel=None, facets=None)], cli_info=True)
    # --- dates: every day (thorough) or every 37th day (quick) of 1970-01-01..9999-12-31 through a real muxer ----
    d['dates'] = dict(trace='TraceDates', kind='dates', stride=37 if q else 1, shards=16 if q else 64)
    # --- valtab: dry-run validators and FromStr/Display surfaces (specification growth beyond the list) ----
    d['valtab'] = dict(trace='TraceVal', kind='valtab')
    # --- long: 2 000 - 20 000 frame recordings (no accumulated drift), thorough tier only -----------------
    d['long'] = dict(trace='TraceMuxide', rand=[dict(gen='mux_long', n=2 if q else 14, rel='none',
                                                     facets={'bytes': False, 'timing': True, 'tree': False, 'raw': False})])
    return d


# ------------------------------------------------------------------------------------------------
def _set_line(line_json, rel, facets):
    o = json.loads(line_json)
    if rel:
        o['rel'] = rel
    if facets is not None:
        o['cfg']['facets'] = facets
    return o


def _abbrev(line):
    o = json.loads(json.dumps(line))
    for c in o.get('calls', []):
        if 'data' in c and len(c['data']) > 12:
            c['data'] = c['data'][:12] + ['...(%d bytes)' % len(c['data'])]
    return o


def run_fnt(ctx, name, d, cdir):
    res = {'name': name, 'errors': [], 'sigs': [], 'instances': 0, 'events': 0, 'mc_runs': [], 'samples': [], 'shards': 0,
           'exhaustive': True, 'runs': [], 'mc_states': 0, 'mc_generated': 0}
    for k, m in enumerate(d.get('mc', [])):
        cfg_text = core.mc_cfg(m['consts'], m['invariants'], m['properties'], spec=m.get('spec', 'Spec'))
        rc, out, wall = core.run_tlc(ctx, m['module'], cfg_text, os.path.join(cdir, 'mc_%d' % k), workers=m['workers'])
        pr = core.parse_mc_output(out)
        res['mc_runs'].append({'module': m['module'], 'consts': m['consts'], 'states': pr['states'], 'generated': pr['generated'],
                               'wall_s': round(wall, 1), 'completed': pr['completed']})
        if not pr['completed']:
            res['errors'].append('design check %s failed: %s' % (m['module'], pr['error']))
        res['mc_states'] += pr['states']
        res['mc_generated'] += pr['generated']
    for k, r in enumerate(d['runs']):
        outdir = os.path.join(cdir, 'fn_%d' % k)
        alpha = ','.join(str(x) for x in r['alpha'])
        hr = core.run_harness(ctx, ['fnt', '--alpha', alpha, '--maxlen', str(r['maxlen']), '--shards', '16', '--out', outdir]
                              + (['--cfg'] if r['cfg'] else []))
        shard_files = sorted(glob.glob(os.path.join(outdir, 'shard_*.ndjson')))
        sigs, consumed, errors = core.run_trace_shards(ctx, d['trace'], shard_files, os.path.join(cdir, 'tv_%d' % k), parallel=8)
        res['errors'] += errors
        if consumed != hr.get('events', -1) and not errors:
            res['errors'].append('events written (%s) != events consumed by TLC (%s)' % (hr.get('events'), consumed))
        res['instances'] += hr.get('instances', 0)
        res['events'] += consumed
        res['shards'] += len(shard_files)
        res['runs'].append({'alphabet': r['alpha'], 'maxlen': r['maxlen'], 'strings': hr.get('instances', 0), 'config_extraction': r['cfg']})
        seen = {}
        for s in sigs:
            kk = tuple(s['sig'])
            seen[kk] = seen.get(kk, 0) + 1
            e = {'sig': s['sig'], 'inst': s['inst'], 'ev': s['ev'], 'module': d['trace']}
            if seen[kk] <= 2:
                e['line'] = {'fn': True, 'alpha': r['alpha'], 'k': s['inst'], 'cfg': r['cfg']}
            res['sigs'].append(e)
        res['samples'].append({'alphabet': r['alpha'], 'maxlen': r['maxlen'], 'example_input': r['alpha'][:1] * 2 + r['alpha'][1:2] + r['alpha'][2:3]})
        shutil.rmtree(outdir, ignore_errors=True)
        shutil.rmtree(os.path.join(cdir, 'tv_%d' % k), ignore_errors=True)
    # every enumerated string is a distinct case; non-trivial = contains a start code: count measured by TLC is not
    # available here, so count conservatively the strings of length >= 3 (the shortest start code)
    nt = 0
    for r in d['runs']:
        b = len(r['alpha'])
        nt += sum(b ** L for L in range(3, r['maxlen'] + 1))
    res['nontrivial'] = {'*': nt}
    return res


def run(ctx, name, cdir):
    defs = corpus_defs(ctx.tier)
    if name not in defs:
        raise core.ToolError('unknown corpus ' + name)
    d = defs[name]
    if d.get('kind') == 'fnt':
        return run_fnt(ctx, name, d, cdir)
    if d.get('kind') == 'valtab':
        strings = gen.generate('mutbytes', 0, ctx.seed, ctx.tier)
        inp = os.path.join(cdir, 'strings.ndjson')
        with open(inp, 'w') as f:
            for b in strings:
                f.write(json.dumps(b) + '\n')
        outdir = os.path.join(cdir, 'val')
        hr = core.run_harness(ctx, ['valtab', '--in', inp, '--out', outdir])
        shard_files = sorted(glob.glob(os.path.join(outdir, 'shard_*.ndjson')))
        sigs, consumed, errors = core.run_trace_shards(ctx, d['trace'], shard_files, os.path.join(cdir, 'tv'))
        res = {'name': name, 'errors': errors, 'instances': hr.get('instances', 0), 'events': consumed, 'shards': 1, 'mc_runs': [],
               'samples': [{'f': 'video_config', 'w': 319, 'h': 240, 'fps_milli': 30000}], 'nontrivial': {'*': hr.get('instances', 0)},
               'sigs': [{'sig': s_['sig'], 'inst': s_['inst'], 'ev': s_['ev'], 'module': d['trace'], 'line': {'valtab': s_['inst']}} for s_ in sigs]}
        shutil.rmtree(outdir, ignore_errors=True)
        shutil.rmtree(os.path.join(cdir, 'tv'), ignore_errors=True)
        return res
    if d.get('kind') == 'dates':
        outdir = os.path.join(cdir, 'dates')
        hr = core.run_harness(ctx, ['dates', '--from', '0', '--to', '2932896', '--stride', str(d['stride']), '--shards', str(d['shards']), '--out', outdir])
        shard_files = sorted(glob.glob(os.path.join(outdir, 'shard_*.ndjson')))
        sigs, consumed, errors = core.run_trace_shards(ctx, d['trace'], shard_files, os.path.join(cdir, 'tv'))
        res = {'name': name, 'errors': errors, 'instances': hr.get('instances', 0), 'events': consumed, 'shards': len(shard_files), 'mc_runs': [],
               'samples': [{'days': 0, 'stride': d['stride']}], 'nontrivial': {'*': hr.get('instances', 0)},
               'sigs': [{'sig': s_['sig'], 'inst': s_['inst'], 'ev': s_['ev'], 'module': d['trace'], 'line': {'date_days': s_['inst']}} for s_ in sigs]}
        shutil.rmtree(outdir, ignore_errors=True)
        shutil.rmtree(os.path.join(cdir, 'tv'), ignore_errors=True)
        return res
    if d.get('kind') == 'fnlist':
        strings = gen.generate(d['gen'], 0, ctx.seed, ctx.tier)
        inp = os.path.join(cdir, 'strings.ndjson')
        with open(inp, 'w') as f:
            for b in strings:
                f.write(json.dumps(b) + '\n')
        outdir = os.path.join(cdir, 'fnl')
        hr = core.run_harness(ctx, ['fnlist', '--in', inp, '--out', outdir, '--shards', '8'])
        shard_files = sorted(glob.glob(os.path.join(outdir, 'shard_*.ndjson')))
        sigs, consumed, errors = core.run_trace_shards(ctx, d['trace'], shard_files, os.path.join(cdir, 'tv'))
        res = {'name': name, 'errors': errors, 'instances': hr.get('instances', 0), 'events': consumed, 'shards': len(shard_files),
               'mc_runs': [], 'samples': [strings[0], strings[len(strings) // 2]] if strings else [],
               'nontrivial': {'*': len({json.dumps(b) for b in strings})}, 'sigs': []}
        seen = {}
        for s_ in sigs:
            kk = tuple(s_['sig'])
            seen[kk] = seen.get(kk, 0) + 1
            e = {'sig': s_['sig'], 'inst': s_['inst'], 'ev': s_['ev'], 'module': d['trace']}
            if seen[kk] <= 2 and s_['inst'] < len(strings):
                e['line'] = {'fnbytes': strings[s_['inst']]}
            res['sigs'].append(e)
        shutil.rmtree(outdir, ignore_errors=True)
        shutil.rmtree(os.path.join(cdir, 'tv'), ignore_errors=True)
        return res
    lines = []
    res = {'name': name, 'mc_runs': [], 'mc_states': 0, 'mc_generated': 0, 'behaviours': 0, 'random_instances': 0,
           'errors': []}
    for k, m in enumerate(d.get('mc', [])):
        cfg_text = core.mc_cfg(m['consts'], m['invariants'], m['properties'], spec=m.get('spec', 'Spec'))
        rc, out, wall = core.run_tlc(ctx, m['module'], cfg_text, os.path.join(cdir, 'mc_%d' % k), workers=m['workers'])
        pr = core.parse_mc_output(out)
        res['mc_runs'].append({'consts': m['consts'], 'states': pr['states'], 'generated': pr['generated'],
                               'behaviours': len(pr['replay']), 'wall_s': round(wall, 1), 'completed': pr['completed']})
        if not pr['completed']:
            tail = '\n'.join(l for l in out.splitlines() if not l.startswith('"REPLAY|'))[-3000:]
            res['errors'].append('design check %s %s failed: %s\n%s' % (m['module'], m['consts'], pr['error'], tail))
            continue
        res['mc_states'] += pr['states']
        res['mc_generated'] += pr['generated']
        res['behaviours'] += len(pr['replay'])
        for r in pr['replay']:
            if d.get('transform') == 'av1key':
                o = json.loads(r)
                cfg = gen.base_cfg('av1', 'none')
                calls = [{'op': 'wv', 'pts': gen.fin(0), 'data': o['data'], 'key': True},
                         {'op': 'wv', 'pts': gen.fin(9000), 'data': [0x12, 0x00, 0x32, 0x03, 0x30, 0x21, 0x22], 'key': False},
                         {'op': 'fin', 'how': 'in_place_stats'}]
                r = json.dumps({'cfg': cfg, 'calls': calls, 'expected_by_generator': o['exp']})
            if d.get('transform') == 'av1init':
                o = json.loads(r)
                if o['k'] != 1:
                    continue                                   # framing 1: temporal delimiter, then the header OBU with a one-byte size
                obu = o['data'][2:4 + o['data'][3]]
                nth = len(lines)
                cfg = {'vc': 'av1', 'w': 640, 'h': 480, 'timescale': 90000, 'fragms': 2000, 'via': 'builder' if nth % 2 else 'config', 'unit': 1, 'unit1': True,
                       'judge_config': True, 'must_build': True, 'w32': gen.W30, 'i32': gen.W30, 'av1': obu,
                       'facets': {'bytes': False, 'timing': False, 'tree': True, 'raw': True}}
                lines.append({'kind': 'frag', 'cfg': cfg, 'calls': [{'op': 'fi'}]})
                continue
            lines.append(_set_line(r, m['rel'], m['facets']))
    if d.get('dedupe'):
        seen = set()
        uniq = []
        for o in lines:
            k = json.dumps(o, sort_keys=True)
            if k not in seen:
                seen.add(k)
                uniq.append(o)
        lines = uniq
    for g in d.get('rand', []):
        gl = gen.generate(g['gen'], g['n'], ctx.seed, ctx.tier)
        for o in gl:
            if g.get('rel') is not None:
                o['rel'] = g.get('rel', 'none')
            if g.get('facets') is not None:
                o['cfg']['facets'] = g['facets']
        res['random_instances'] += len(gl)
        lines += gl
    if d.get('attach_others'):
        import random as _r
        rr = _r.Random(ctx.seed)
        others = [{'cfg': o['cfg'], 'calls': o['calls']} for o in gen.generate('mux', 6, ctx.seed + 17, 'quick')]
        for o in lines:
            o['others'] = rr.sample(others, 2)
    if res['errors']:
        return res
    r2 = run_lines(ctx, name, lines, cdir, trace=d['trace'], harness_cmd=d.get('harness', 'replay'), inst_div=d.get('inst_div', 8))
    res.update(r2)
    return res


def run_lines(ctx, name, lines, cdir, trace=None, harness_cmd=None, inst_div=None):
    defs = corpus_defs(ctx.tier)
    if trace is None:
        trace = defs[name]['trace']
        harness_cmd = defs[name].get('harness', 'replay')
    if inst_div is None:
        inst_div = defs[name].get('inst_div', 8)
    res = {'errors': []}
    if lines and lines[0].get('fn'):
        ln = lines[0]
        outdir = os.path.join(cdir, 'trace')
        hr = core.run_harness(ctx, ['fnone', '--alpha', ','.join(map(str, ln['alpha'])), '--k', str(ln['k']), '--out', outdir]
                              + (['--cfg'] if ln.get('cfg') else []))
        sigs, consumed, errors = core.run_trace_shards(ctx, trace, sorted(glob.glob(os.path.join(outdir, 'shard_*.ndjson'))), os.path.join(cdir, 'tv'))
        return {'errors': errors, 'sigs': [{'sig': s['sig'], 'inst': s['inst'], 'ev': s['ev'], 'module': trace, 'line': ln} for s in sigs],
                'instances': 1, 'events': consumed}
    if lines and 'date_days' in lines[0]:
        ln = lines[0]
        outdir = os.path.join(cdir, 'trace')
        core.run_harness(ctx, ['dates', '--from', str(ln['date_days']), '--to', str(ln['date_days']), '--stride', '1', '--shards', '1', '--out', outdir])
        sigs, consumed, errors = core.run_trace_shards(ctx, trace, sorted(glob.glob(os.path.join(outdir, 'shard_*.ndjson'))), os.path.join(cdir, 'tv'))
        return {'errors': errors, 'sigs': [{'sig': s['sig'], 'inst': s['inst'], 'ev': s['ev'], 'module': trace, 'line': ln} for s in sigs],
                'instances': 1, 'events': consumed}
    inp = os.path.join(cdir, 'input.ndjson')
    with open(inp, 'w') as f:
        for o in lines:
            f.write(json.dumps(o) + '\n')
    outdir = os.path.join(cdir, 'trace')
    shards = 1 if len(lines) < 4 else max(16, min(512, len(lines) // 3000))
    try:
        hr = core.run_harness(ctx, [harness_cmd, '--in', inp, '--out', outdir, '--shards', str(shards)])
    except core.HarnessKilled as hk:
        # bisect for one input line that kills the process on its own (deterministic code under test)
        cand = list(range(len(lines)))
        def dies(idx):
            sub = os.path.join(cdir, 'bisect.ndjson')
            with open(sub, 'w') as f:
                for k in idx:
                    f.write(json.dumps(lines[k]) + '\n')
            shutil.rmtree(os.path.join(cdir, 'bisect_out'), ignore_errors=True)
            try:
                core.run_harness(ctx, [harness_cmd, '--in', sub, '--out', os.path.join(cdir, 'bisect_out'), '--shards', '1'])
                return False
            except core.HarnessKilled:
                return True
        if not dies(cand):
            raise
        while len(cand) > 1:
            half = cand[:len(cand) // 2]
            cand = half if dies(half) else cand[len(cand) // 2:]
            if len(cand) == 1 and not dies(cand):
                raise        # needs a combination of lines: stays a tool error
        shutil.rmtree(outdir, ignore_errors=True)
        shutil.rmtree(os.path.join(cdir, 'bisect_out'), ignore_errors=True)
        k = cand[0]
        return {'errors': [], 'instances': 1, 'events': 0, 'shards': 0, 'nontrivial': {}, 'samples': [],
                'sigs': [{'sig': ['C12', 'Total', 'process', 'killed-by-signal'], 'inst': k * 8, 'ev': 0, 'module': trace, 'line': lines[k],
                          'detail': str(hk)[-400:]}]}
    if 'hang_line' in hr:
        k = hr['hang_line']
        shutil.rmtree(outdir, ignore_errors=True)
        return {'errors': [], 'instances': 1, 'events': 0, 'shards': 0, 'nontrivial': {}, 'samples': [],
                'sigs': [{'sig': ['C12', 'Terminates', 'call', 'hang'], 'inst': k * 8, 'ev': 0, 'module': trace,
                          'line': lines[k] if 0 <= k < len(lines) else None}]}
    shard_files = sorted(glob.glob(os.path.join(outdir, 'shard_*.ndjson')))
    sigs, consumed, errors = core.run_trace_shards(ctx, trace, shard_files, os.path.join(cdir, 'tv'))
    res['errors'] += errors
    res['instances'] = hr.get('instances', 0)
    res['events'] = consumed
    res['shards'] = len(shard_files)
    if consumed != hr.get('events', -1) and not errors:
        res['errors'].append('events written (%s) != events consumed by TLC (%s)' % (hr.get('events'), consumed))
    # attach the input line to the first occurrences of every distinct signature
    seen = {}
    out_sigs = []
    for s in sigs:
        k = tuple(s['sig'])
        seen[k] = seen.get(k, 0) + 1
        e = {'sig': s['sig'], 'inst': s['inst'], 'ev': s['ev'], 'module': trace}
        if seen[k] <= 2:
            li = s['inst'] // inst_div
            if 0 <= li < len(lines):
                e['line'] = lines[li]
        out_sigs.append(e)
    res['sigs'] = out_sigs
    # summaries -> distinct non-trivial cases per property rule
    summ = []
    for sf in glob.glob(os.path.join(outdir, 'summary_*.ndjson')):
        for l in open(sf):
            summ.append(json.loads(l))
    res['nontrivial'] = nontrivial_counts(summ)
    res['samples'] = [_abbrev(l) for l in lines[:2]] + ([_abbrev(lines[-1])] if len(lines) > 2 else [])
    shutil.rmtree(outdir, ignore_errors=True)
    try:
        os.remove(inp)
    except OSError:
        pass
    shutil.rmtree(os.path.join(cdir, 'tv'), ignore_errors=True)
    return res


def nontrivial_counts(summ):
    """Distinct (by input hash) cases that are non-trivial by the rule of each property."""
    def cnt(pred):
        return len({s['hash'] for s in summ if pred(s)})
    two = lambda s: s['nv'] >= 2 or s['na'] >= 2
    both = lambda s: s['nv'] >= 1 and s['na'] >= 1
    return {
        '*': cnt(lambda s: True),
        'C01': cnt(two), 'C03': cnt(two), 'C08': cnt(two),
        'C09': cnt(both), 'C15': cnt(both),
        'C04': cnt(lambda s: s['rej'] >= 1 or s['nv'] + s['na'] >= 2),
        'C05': cnt(lambda s: s.get('rej_then_ok')),
        'C06': cnt(lambda s: s['fin'] >= 1 and s['calls'] >= 2),
        'C10': cnt(lambda s: s.get('segs', 0) >= 2), 'C11': cnt(lambda s: s.get('segs', 0) >= 2),
        'C12': cnt(lambda s: True),
        'C13': cnt(lambda s: s.get('sched_nonfull')),
        'C17': cnt(lambda s: True),
    }
