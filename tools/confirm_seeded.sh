#!/bin/bash
# usage: confirm_seeded.sh <srcdir with patch.diff + tests/seeded_demo.rs + SEEDED.md> <name> <property>
# Confirms in a scratch worktree of /repo (outside /repo and /verif):
#   - patch applies, crate builds, existing suite passes with the patch
#   - demo fails with the patch and passes without it
# then stores /verif/seeded/<name>/{patch.diff,seeded_demo.rs,meta.json}
set -u
SRC=$1; NAME=$2; PROP=$3
WT=/tmp/confirm_$NAME
rm -rf $WT; git -C /repo worktree prune
git -C /repo worktree add -q --detach $WT HEAD || exit 2
cd $WT
cp $SRC/tests/seeded_demo.rs tests/seeded_demo.rs
# 1. demo passes without the patch
cargo test --offline --test seeded_demo > $WT/demo_without.log 2>&1; RC_WITHOUT=$?
# 2. apply patch
git apply $SRC/patch.diff; RC_APPLY=$?
cargo test --offline --test seeded_demo > $WT/demo_with.log 2>&1; RC_WITH=$?
# 3. existing suite with the patch (demo excluded by moving it away)
mv tests/seeded_demo.rs /tmp/seeded_demo_$NAME.rs
cargo test --workspace --no-fail-fast --offline > $WT/suite.log 2>&1; RC_SUITE=$?
PASSED=$(grep -E "^test result" $WT/suite.log | awk '{p+=$4} END {print p+0}')
FAILED=$(grep -E "^test result" $WT/suite.log | awk '{f+=$6} END {print f+0}')
mkdir -p /verif/seeded/$NAME
cp $SRC/patch.diff /verif/seeded/$NAME/patch.diff
cp /tmp/seeded_demo_$NAME.rs /verif/seeded/$NAME/seeded_demo.rs
[ -f $SRC/SEEDED.md ] && cp $SRC/SEEDED.md /verif/seeded/$NAME/SEEDED.md
python3 - <<PY
import json
json.dump({
 "property": "$PROP",
 "name": "$NAME",
 "patch_applies": $RC_APPLY == 0,
 "demo_passes_without_patch": $RC_WITHOUT == 0,
 "demo_fails_with_patch": $RC_WITH != 0,
 "suite_with_patch": {"passed": $PASSED, "failed": $FAILED, "rc": $RC_SUITE},
 "confirmed": ($RC_APPLY == 0 and $RC_WITHOUT == 0 and $RC_WITH != 0 and $FAILED == 0 and $RC_SUITE == 0),
 "ran": ["cargo test --offline --test seeded_demo (without patch)", "git apply patch.diff", "cargo test --offline --test seeded_demo (with patch)", "cargo test --workspace --no-fail-fast --offline (with patch, demo removed)"],
 "needs": "see SEEDED.md",
}, open("/verif/seeded/$NAME/meta.json","w"), indent=1)
PY
cd /; git -C /repo worktree remove --force $WT; rm -f /tmp/seeded_demo_$NAME.rs
cat /verif/seeded/$NAME/meta.json
