#!/usr/bin/env python3
"""Debug aid for `./check robust`: runs one damaged set and prints the distinct TLC evaluation errors
(message + innermost positions).  usage: robust_debug.py <set> <round> [nshards]"""
import sys, os, json, copy, subprocess, shutil, glob, re
sys.path.insert(0, '/verif/lib')
from vlib import gen
name, rnd = sys.argv[1], int(sys.argv[2])
seed = 1
F = {'bytes': True, 'timing': True, 'tree': True, 'raw': True}
sets = {'layout': ('TraceMuxide', lambda: gen.generate('layout', 0, seed, 'quick')),
        'mux': ('TraceMuxide', lambda: [gen.generate('mux', 1, seed * 100 + k, 'quick')[0] for k in range(300)]),
        'meta': ('TraceMuxide', lambda: gen.generate('meta', 0, seed, 'quick')[:600]),
        'widths': ('TraceMuxide', lambda: [o for o in gen.generate('widths', 0, seed, 'quick') if 'kind' not in o][:40]),
        'frag': ('TraceFrag', lambda: [gen.generate('frag', 1, seed * 100 + k, 'quick')[0] for k in range(300)]),
        'fraginit': ('TraceFrag', lambda: gen.generate('fraginit', 0, seed, 'quick'))}
trace, g = sets[name]
lines = copy.deepcopy(g())
for k, o in enumerate(lines):
    o['cfg']['corrupt'] = 1 + rnd * 100003 + k
    o['cfg']['facets'] = dict(F)
d = '/tmp/robust_dbg'
shutil.rmtree(d, ignore_errors=True)
os.makedirs(d)
with open(d + '/in.ndjson', 'w') as f:
    for o in lines:
        f.write(json.dumps(o) + '\n')
p = subprocess.run(['/verif/harness/target/debug/muxide-verif-harness', 'replay', '--in', d + '/in.ndjson', '--out', d + '/out', '--shards', '16'],
                   stdout=subprocess.PIPE, stderr=subprocess.STDOUT, text=True)
print('harness rc', p.returncode, p.stdout[-300:])
seen = {}
for sh in sorted(glob.glob(d + '/out/shard_*.ndjson')):
    env = dict(os.environ, TRACE=sh, JAVA_TOOL_OPTIONS='-Xss1g -Xmx3g -Djava.io.tmpdir=' + d)
    q = subprocess.run(['timeout', '300', 'tlc', '-workers', '1', '-metadir', d + '/md', '-noGenerateSpecTE', '-config', trace + '.cfg', trace + '.tla'],
                       cwd='/verif/spec', env=env, stdout=subprocess.PIPE, stderr=subprocess.STDOUT, text=True)
    shutil.rmtree(d + '/md', ignore_errors=True)
    out = q.stdout
    if 'CONSUMED|' in out:
        continue
    m = re.search(r'Error: (TLC threw.*?|.*?)\n(.*?)(?=\nError: The behavior|\Z)', out, re.S)
    msg = (m.group(0)[:600] if m else out[-600:])
    pos = re.findall(r'^\d+\. (Line .*)$', out, re.M)
    l = re.search(r'/\\ l = (\d+)', out[::-1][:0] or '')  # unused
    lpos = re.findall(r'^/\\ l = (\d+)', out, re.M)
    key = (msg[:200], tuple(pos[-2:]))
    if key not in seen:
        seen[key] = (sh, lpos[-1] if lpos else '?')
        print('=' * 80)
        print(os.path.basename(sh), 'at l =', lpos[-1] if lpos else '?')
        print(msg)
        print('\n'.join(pos[-6:]))
print(len(seen), 'distinct errors')
