#!/usr/bin/env python3
"""Regenerates /verif/MANIFEST.json from lib/vlib/props.py (single source for what is claimed)."""
import json, sys, os
ROOT = os.path.dirname(os.path.dirname(os.path.abspath(__file__)))
sys.path.insert(0, os.path.join(ROOT, 'lib'))
from vlib import props

allp = [json.loads(l) for l in open(os.path.join(ROOT, 'properties.jsonl'))]
LEVEL_TEXT = {
    'model_checking': 'Bounded exhaustive model checking of the TLA+ reference model with TLC (design check), and TLC trace validation of every TLC-enumerated behaviour and of seeded random histories executed against the real library; every verdict is a TLA+ predicate evaluated by TLC',
    'fault_enumeration': 'TLC model checking of the sink protocol (MuxideSink.tla) plus enumeration of every write-call index x fault kind and every byte-offset short-write cut on representative histories, each recorded run validated by TLC against the specification',
    'exploration': 'Totality of the TLA+ models (every call has a defined outcome) plus specification-generated inputs (all API states x time tokens x frame classes, exhaustive small-scope byte strings, prefixes and bit flips of generated headers) executed under catch_unwind with overflow checks; a panic or hang is never a legal outcome in the trace specification',
}
checks = []
for p in allp:
    pid = p['id']
    sp = props.PROPS.get(pid)
    if not sp:
        continue
    lvl = sp['level']
    checks.append({
        'property_id': pid,
        'quick_cmd': './check %s --tier quick' % pid,
        'thorough_cmd': './check %s --tier thorough' % pid,
        'evidence_file': 'evidence/%s.json' % pid,
        'replay_cmd_template': './check %s --replay {path}' % pid,
        'engine': 'tla-trace',
        'level_claimed': {'category': lvl, 'text': sp.get('level_text', LEVEL_TEXT[lvl]), 'design_ref': 'DESIGN.md section 5 (%s) and section 11' % pid},
        'level_note': sp.get('level_note', 'bounded (alphabets, depths and counts are in the evidence file); trusts TLC, the Json/IOUtils community modules, the harness (executor + independent ISO-BMFF reader) and rustc'),
        'technique': sp.get('technique', 'explicit TLA+ specification; TLC bounded model checking; TLC-enumerated behaviours replayed into the Rust library; recorded traces validated by TLC (monitors, signatures)'),
    })
na = [{'property_id': p['id'], 'reason': props.NOT_CLAIMED.get(p['id'], 'specification module for this property is planned (DESIGN.md section 5) but its check is not yet built; not claimed')}
      for p in allp if p['id'] not in props.PROPS]
m = {
    'version': 1,
    'setup_cmd': './check setup',
    'hooks': {'guard': 'muxide_verif',
              'enable': 'harness/.cargo/config.toml passes --cfg muxide_verif; no source hook exists in /repo (all observations go through the public API, the caller-supplied std::io::Write sink and returned bytes)',
              'baseline_off_cmd': 'cd /repo && cargo test --workspace --no-fail-fast --offline',
              'source_commits': [], 'add_only': True},
    'engines': [{'name': 'tla-trace', 'path': 'spec/', 'serves_properties': sorted(props.PROPS.keys()),
                 'kind_free_text': 'TLA+ specifications (spec/*.tla) checked with TLC: bounded model checking of MC*.tla, trace validation with Trace*.tla; Rust harness (harness/) replays TLC-generated behaviours and seeded inputs into muxide and records ndjson traces; python driver (check, lib/vlib) orchestrates'}],
    'checks': checks,
    'not_applicable': na,
    'notes': 'See DESIGN.md. Exit codes: 0 held (KNOWN-FINDING lines possible), 1 unlisted violation (VIOLATION lines), 2 tool error.',
}
json.dump(m, open(os.path.join(ROOT, 'MANIFEST.json'), 'w'), indent=1)
print('claimed:', ' '.join(c['property_id'] for c in checks))
