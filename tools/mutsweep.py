#!/usr/bin/env python3
"""Mechanical mutation sweep (not a registered check; a way of finding blind spots).

  mutsweep.py gen  <n> <seed>          enumerate operator/constant mutants of muxide's non-test source, sample n
  mutsweep.py kill <jobs>              run the existing suite on each sampled mutant in scratch worktrees; keep survivors
  mutsweep.py hunt                     run the relevant corpora of /verif (scratch copy) against every survivor

State lives in /verif/work/mutsweep/ (scratch worktrees under /tmp, removed after use).  A survivor that no corpus
reports is either an equivalent mutant or a blind spot: triage by hand (results.json)."""
import sys, os, re, json, random, subprocess, shutil, hashlib
ROOT = os.environ.get('MSW_ROOT', '/verif/work/mutsweep')
TAG = os.environ.get('MSW_TAG', '')
FILES = os.environ['MSW_FILES'].split(',') if os.environ.get('MSW_FILES') else ['src/api.rs', 'src/muxer/mp4.rs', 'src/fragmented.rs', 'src/codec/h264.rs', 'src/codec/h265.rs', 'src/codec/av1.rs', 'src/codec/vp9.rs',
         'src/codec/opus.rs', 'src/codec/common.rs', 'src/validation.rs', 'src/bin/muxide.rs']
RULES = [(r' < ', ' <= '), (r' <= ', ' < '), (r' > ', ' >= '), (r' >= ', ' > '), (r' == ', ' != '), (r' != ', ' == '),
         (r' \+ ', ' - '), (r' - ', ' + '), (r' && ', ' || '), (r' \|\| ', ' && '), (r' \+ 1\b', ' + 2'), (r' - 1\b', ' - 0'),
         (r'\bas u32\b', 'as u16'), (r' \* ', ' + '), (r' / ', ' * '), (r' % ', ' / '), (r'<< ', '>> '), (r'>> ', '<< '), (r' \| ', ' & '), (r' & ', ' | '),
         (r'\.min\(', '.max('), (r'\.max\(', '.min('), (r'\btrue\b', 'false'), (r'\bfalse\b', 'true'),
         (r'saturating_sub', 'wrapping_sub'), (r'wrapping_sub', 'saturating_sub'), (r'\.is_empty\(\)', '.len() == 1'), (r'\.is_none\(\)', '.is_some()'), (r'\.is_some\(\)', '.is_none()')]
NUM = re.compile(r'(?<![\w.])(0x[0-9a-fA-F_]+|\d[\d_]*)(?![\w.])')

def nontest(text):
    i = text.find('#[cfg(test)]')
    return text if i < 0 else text[:i]

def enumerate_mutants():
    out = []
    for f in FILES:
        p = os.path.join('/repo', f)
        if not os.path.exists(p):
            continue
        text = nontest(open(p).read())
        off = 0
        for ln, line in enumerate(text.split('\n')):
            st = line.strip()
            skip = st.startswith('//') or st.startswith('#[') or 'assert' in st or 'debug_assert' in st or st.startswith('use ') or 'format!' in st or 'write!' in st or 'eprintln' in st or 'println' in st
            if not skip:
                code = line.split('//')[0]
                for pat, rep in RULES:
                    for m in re.finditer(pat, code):
                        out.append({'file': f, 'line': ln + 1, 'start': off + m.start(), 'end': off + m.end(), 'old': m.group(0), 'new': rep, 'kind': 'op'})
                for m in NUM.finditer(code):
                    lit = m.group(0)
                    try:
                        v = int(lit.replace('_', ''), 0)
                    except ValueError:
                        continue
                    if lit.startswith('0x'):
                        new = hex(v + 1) if v != 0xff else '0xfe'
                    else:
                        new = str(v + 1)
                    out.append({'file': f, 'line': ln + 1, 'start': off + m.start(), 'end': off + m.end(), 'old': lit, 'new': new, 'kind': 'const'})
            off += len(line) + 1
    return out

def apply(wt, m):
    p = os.path.join(wt, m['file'])
    t = open(p).read()
    assert t[m['start']:m['end']] == m['old'], (m, t[m['start']:m['end']])
    open(p, 'w').write(t[:m['start']] + m['new'] + t[m['end']:])

def sh(cmd, **kw):
    return subprocess.run(cmd, shell=True, stdout=subprocess.PIPE, stderr=subprocess.STDOUT, text=True, **kw)

def main():
    os.makedirs(ROOT, exist_ok=True)
    cmd = sys.argv[1]
    if cmd == 'gen':
        n, seed = int(sys.argv[2]), int(sys.argv[3])
        allm = enumerate_mutants()
        rng = random.Random(seed)
        # stratify by file so that small files are represented
        byf = {}
        for m in allm:
            byf.setdefault(m['file'], []).append(m)
        pick = []
        files = sorted(byf)
        while len(pick) < n and any(byf.values()):
            for f in files:
                if byf[f] and len(pick) < n:
                    pick.append(byf[f].pop(rng.randrange(len(byf[f]))))
        for k, m in enumerate(pick):
            m['id'] = 'm%03d' % k
        json.dump({'total_sites': len(allm), 'sample': pick}, open(os.path.join(ROOT, 'sample.json'), 'w'), indent=1)
        print('sites', len(allm), 'sampled', len(pick))
    elif cmd == 'kill':
        jobs = int(sys.argv[2])
        sample = json.load(open(os.path.join(ROOT, 'sample.json')))['sample']
        resf = os.path.join(ROOT, 'kill.json')
        res = json.load(open(resf)) if os.path.exists(resf) else {}
        from concurrent.futures import ThreadPoolExecutor
        import threading
        lock = threading.Lock()
        def one(args):
            slot, m = args
            if m['id'] in res:
                return
            wt = '/tmp/msw%s_%d_%s' % (TAG, slot, m['id'])
            sh('rm -rf %s; git -C /repo worktree prune; git -C /repo worktree add -q --detach %s HEAD' % (wt, wt))
            try:
                apply(wt, m)
                r = sh('cd %s && CARGO_TARGET_DIR=/tmp/msw%s_target_%d timeout 900 cargo test --workspace --no-fail-fast --offline 2>&1 | grep -E "^test result|error(\\[|:)|FAILED" | head -40' % (wt, TAG, slot))
                out = r.stdout
                failed = sum(int(x) for x in re.findall(r'(\d+) failed', out))
                built = 'test result' in out
                status = 'survived' if (built and failed == 0 and 'error' not in out) else ('nobuild' if not built else 'killed')
            except AssertionError as e:
                status = 'stale'
            sh('git -C /repo worktree remove --force %s; rm -rf %s' % (wt, wt))
            with lock:
                res[m['id']] = status
                json.dump(res, open(resf, 'w'), indent=1)
                print(m['id'], m['file'], m['line'], repr(m['old']), '->', repr(m['new']), status, flush=True)
        work = [(i % jobs, m) for i, m in enumerate(sample)]
        # one slot = one target dir: run slots in parallel, mutants of a slot sequentially
        def run_slot(s):
            for a in work:
                if a[0] == s:
                    one(a)
        with ThreadPoolExecutor(jobs) as ex:
            list(ex.map(run_slot, range(jobs)))
        for s in range(jobs):
            shutil.rmtree('/tmp/msw%s_target_%d' % (TAG, s), ignore_errors=True)
        print({k: list(res.values()).count(k) for k in set(res.values())})
    elif cmd == 'hunt':
        sample = {m['id']: m for m in json.load(open(os.path.join(ROOT, 'sample.json')))['sample']}
        kill = json.load(open(os.path.join(ROOT, 'kill.json')))
        resf = os.path.join(ROOT, 'results.json')
        res = json.load(open(resf)) if os.path.exists(resf) else {}
        CORP = {'src/muxer/mp4.rs': ['av', 'layout', 'metalayout', 'meta', 'adts', 'contract', 'reject', 'bound', 'sink', 'codeccfg'],
                'src/fragmented.rs': ['frag', 'fraginit', 'boundfrag', 'extremefrag'],
                'src/api.rs': ['contract', 'reject', 'finish', 'conv', 'av', 'modes', 'fraginit', 'extreme', 'bound'],
                'src/validation.rs': ['valtab'], 'src/bin/muxide.rs': ['cli']}
        CODEC = ['fn14', 'fncfg', 'fnobu', 'fnopus', 'codeccfg', 'mutbytes', 'mutframes', 'contract', 'layout', 'fraginit']
        known = json.load(open('/verif/known_findings.json'))['open']
        kset = {(k['property'], k['predicate'], k['site'], k['class']) for k in known}
        for mid, st in sorted(kill.items()):
            if st != 'survived' or mid in res:
                continue
            m = sample[mid]
            S = '/tmp/msw_hunt' + TAG
            sh('rm -rf %s; mkdir -p %s; git -C /repo worktree prune; git -C /repo worktree add -q --detach %s/repo HEAD' % (S, S, S))
            apply(S + '/repo', m)
            sh("rsync -a --exclude work --exclude 'harness/target' --exclude .git --exclude evidence /verif/ %s/verif/" % S)
            sh("sed -i 's|path = \"/repo\"|path = \"%s/repo\"|' %s/verif/harness/Cargo.toml; mkdir -p %s/verif/evidence" % (S, S, S))
            corp = CORP.get(m['file'], CODEC)
            new = {}
            errs = []
            for c in corp:
                r = sh('cd %s/verif && VERIF_REPO=%s/repo ./check corpus %s --no-cache' % (S, S, c))
                out = r.stdout
                try:
                    i = out.index('{\n "name"')
                    # result JSON is followed by a signature histogram: parse the histogram lines instead
                except ValueError:
                    pass
                for ln in out.splitlines():
                    mm = re.match(r'\s*(\d+)\s+(C\d\d|X01)/(.*)$', ln)
                    if mm:
                        parts = [mm.group(2)] + mm.group(3).split('/')
                        # sites may contain '/': known findings are matched on the joined text
                        txt = mm.group(2) + '/' + mm.group(3)
                        if not any(txt == '/'.join(k) for k in kset):
                            new[txt] = new.get(txt, 0) + int(mm.group(1))
                if '"errors": []' not in out:
                    errs.append(c)
                if new:
                    break
            res[mid] = {'mutant': m, 'detected': bool(new), 'signatures': sorted(new)[:8], 'tool_errors_in': errs, 'corpora_run': corp[:corp.index(c) + 1]}
            json.dump(res, open(resf, 'w'), indent=1)
            print(mid, m['file'], m['line'], repr(m['old']), '->', repr(m['new']), 'DETECTED' if new else ('TOOLERR ' + ','.join(errs) if errs else 'missed'), sorted(new)[:2], flush=True)
            sh('git -C /repo worktree remove --force %s/repo; rm -rf %s' % (S, S))

main()
