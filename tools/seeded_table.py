#!/usr/bin/env python3
"""Writes seeded/README.md: one row per seeded change (what it breaks, what it needs, which checks caught it)."""
import json, glob, os, re
ROOT = os.path.dirname(os.path.dirname(os.path.abspath(__file__)))
rows = []
for d in sorted(glob.glob(os.path.join(ROOT, 'seeded', '*', 'meta.json'))):
    m = json.load(open(d))
    dd = os.path.dirname(d)
    det = {}
    if os.path.exists(os.path.join(dd, 'detection.json')):
        det = json.load(open(os.path.join(dd, 'detection.json')))
    needs = m.get('needs', '')
    sm = os.path.join(dd, 'SEEDED.md')
    if os.path.exists(sm):
        txt = open(sm).read()
        mm = re.search(r'(?is)##\s*what.*?needed.*?\n(.*?)(\n## |\Z)', txt)
        if mm:
            needs = ' '.join(mm.group(1).split())[:400]
    caught = ', '.join('%s (exit %s)' % (k, v) for k, v in det.get('exit_codes', {}).items()) or 'not run yet'
    sigs = '; '.join(s.strip(' /') for s in det.get('signatures', []))[:300]
    rows.append('| %s | %s | %s | %s | %s | %s |' % (m['name'], m['property'], 'yes' if m.get('confirmed') else 'NO', needs.replace('|', '/'), caught, sigs.replace('|', '/')))
out = ['# Seeded changes', '',
       'Each directory holds `patch.diff` (the change to muxide), `seeded_demo.rs` (a test that fails with the change and passes without it),',
       '`SEEDED.md` (the author\'s description), `meta.json` (what was confirmed in a scratch worktree: the patch applies, the existing suite',
       'still passes with it, the demo fails with it and passes without it) and `detection.json` / `detection.txt` (quick checks run against a',
       'scratch copy of the repository with the patch applied).', '',
       '| name | property | confirmed | needs, in order to manifest | quick checks run (exit 1 = VIOLATION reported) | signatures reported |',
       '|---|---|---|---|---|---|'] + rows
open(os.path.join(ROOT, 'seeded', 'README.md'), 'w').write('\n'.join(out) + '\n')
print('\n'.join(rows))
