#!/bin/bash
# usage: try_seeded.sh <name> <prop> [<prop> ...]
# Runs the quick checks of the given properties against a scratch copy of /repo with the seeded
# patch applied (scratch copy of /verif too, so it can run next to other work), records the
# outcome in /verif/seeded/<name>/detection.json, removes the scratch copies.
set -u
NAME=$1; shift
S=/tmp/vs_$NAME
rm -rf $S; mkdir -p $S
git -C /repo worktree prune
git -C /repo worktree add -q --detach $S/repo HEAD || exit 2
git -C $S/repo apply /verif/seeded/$NAME/patch.diff || { echo "patch does not apply"; git -C /repo worktree remove --force $S/repo; exit 2; }
rsync -a --exclude work --exclude 'harness/target' --exclude .git --exclude evidence /verif/ $S/verif/
sed -i "s|path = \"/repo\"|path = \"$S/repo\"|" $S/verif/harness/Cargo.toml
mkdir -p $S/verif/evidence
OUT=/verif/seeded/$NAME/detection.txt
: > $OUT
RES="{"
for P in "$@"; do
  echo "=== $P" >> $OUT
  (cd $S/verif && VERIF_REPO=$S/repo ./check $P --tier quick) >> $OUT 2>&1
  RC=$?
  echo "rc=$RC" >> $OUT
  RES="$RES\"$P\": $RC, "
done
RES="${RES%, }}"
python3 - <<PY
import json,re
res=json.loads('''$RES''')
out=open("$OUT").read()
viol=sorted(set(re.findall(r'VIOLATION property=(\S+)', out)))
sigs=sorted(set(re.findall(r'signature: (.*?)  \(', out)))
json.dump({"name":"$NAME","exit_codes":res,"violations_reported_for":viol,"signatures":sigs,"detected":any(v==1 for v in res.values())},open("/verif/seeded/$NAME/detection.json","w"),indent=1)
print(json.dumps({"name":"$NAME","exit_codes":res,"violations":viol,"signatures":sigs}))
PY
git -C /repo worktree remove --force $S/repo
rm -rf $S
